"""F16 (C06): the mean-one Lagrange multiplier enters add_mean_one as a column of ones over ALL junction rows of the raw
force matrix, i.e. as the fixed vector (1, 1) acting on every junction.  That vector does not rotate with the tissue, so for
tissues that are not in exact force balance (multiplier != 0) the static tensions depend on the pose.  A rotation by exactly
90 degrees is used because the other known pose dependence (F6, per-component sign) is equivariant under quarter turns.
Usage: python triage_multiplier_F16.py <repo-root>"""
import sys, os; sys.path.insert(0, sys.argv[1])
import warnings, numpy as np
import forsys as fs
warnings.simplefilter("ignore")
path = os.path.join(sys.argv[1], "tests", "data", "furrow_gauss_velocity", "stage0.dmp")
def solve(rot):
    se = fs.surface_evolver.SurfaceEvolver(path)
    v, e, c = se.create_lattice()
    for vv in v.values():
        x, y = vv.x, vv.y
        if rot == 90:
            vv.x, vv.y = -y, x
        elif rot == 180:
            vv.x, vv.y = -x, -y
    fr = fs.frames.Frame(0, v, e, c, time=0)
    F = fs.ForSys({0: fr}, cm=False)
    F.build_force_matrix(when=0)
    F.solve_stress(when=0, allow_negatives=False)
    return np.array(list(F.forces[0].values()), dtype=float)
t0, t90, t180 = solve(0), solve(90), solve(180)
d90, d180 = np.abs(t0 - t90).max(), np.abs(t0 - t180).max()
print("interfaces", len(t0), " max |t(0) - t(90)| =", round(float(d90), 4), "  max |t(0) - t(180)| =", round(float(d180), 4), " mean", round(float(t0.mean()), 4))
sys.exit(1 if max(d90, d180) > 1e-6 else 0)

"""Planned repairs of genuine defects (see DESIGN.md §5), written as exact
replacements that preserve each file's line endings (the repo uses CRLF).
Usage: python3 apply_planned_fixes.py <repo-root> [F1 F2 ...]   (default: all)
Each F-number is meant to become ONE 'fix:' commit; this script is a note for
the build phase, not part of any check."""
import sys, io
def patch(root, p, old, new, count=1):
    raw = open(f"{root}/{p}", "rb").read().decode("utf-8")
    nl = "\r\n" if "\r\n" in raw else "\n"
    s = raw.replace("\r\n", "\n")
    assert s.count(old) == count, (p, old[:50], s.count(old))
    s = s.replace(old, new)
    open(f"{root}/{p}", "wb").write(s.replace("\n", nl).encode("utf-8"))
FIXES = {}
def fix(name):
    def deco(f): FIXES[name] = f; return f
    return deco
@fix("F1")   # C16/C05: lsq re-insertion bound None and duplicated get_solution_no_discarded
def f1(r):
    patch(r, 'forsys/fmatrix.py', '''                xres = [solution.params[name].value for name in solution.params]

                # reinsert all the removed spaces
                for index in removed_indices:
                    xres = xres.insert(index, -1)
''', '''                xres = np.array([solution.params[name].value for name in solution.params])
''')
@fix("F12")  # C10: interfaces excluded by an angle limit kept the tension of an earlier solve
def f12(r):
    patch(r, 'forsys/fmatrix.py', '''        for index, element in enumerate(self.big_edges_to_use):
            edges_to_use = [list(set(self.frame.vertices[element[vid]].ownEdges) & ''', '''        for big_edge in self.frame.internal_big_edges:
            for e in big_edge.edges:
                self.frame.edges[e].tension = 0

        for index, element in enumerate(self.big_edges_to_use):
            edges_to_use = [list(set(self.frame.vertices[element[vid]].ownEdges) & ''')
@fix("F2")   # C10: per-frame pressure store was rebound to a list
def f2(r):
    patch(r, 'forsys/forsys.py', '''        self.pressures = self.pressure_matrices[when].solve_system(**kwargs)
        self.frames[when].assign_pressures(self.pressures, self.pressure_matrices[when].mapping_order)''', '''        self.pressures[when] = self.pressure_matrices[when].solve_system(**kwargs)
        self.frames[when].assign_pressures(self.pressures[when], self.pressure_matrices[when].mapping_order)''')
@fix("F3")   # C18: f"{row}{column}" collides for grid >= 11; fixed width keeps the keys of grid <= 10
def f3(r):
    patch(r, 'forsys/stress_tensor.py', '''    for row in range(grid):
        for column in range(grid):
            center =''', '''    key_width = len(str(grid - 1))
    for row in range(grid):
        for column in range(grid):
            center =''')
    patch(r, 'forsys/stress_tensor.py', 'sigmas[f"{row}{column}"]', 'sigmas[f"{row:0{key_width}d}{column:0{key_width}d}"]', 2)
    patch(r, 'forsys/frames.py', '''        for row in range(len(self.stress_tensor[1][0])):''', '''        key_width = len(str(coarsing - 1))
        for row in range(len(self.stress_tensor[1][0])):''')
    patch(r, 'forsys/frames.py', 'self.stress_tensor[0][f"{row}{column}"]', 'self.stress_tensor[0][f"{row:0{key_width}d}{column:0{key_width}d}"]')
@fix("F4")   # C11: abs() mirrored the contraction midpoint for negative coordinates
def f4(r):
    patch(r, 'forsys/virtual_edges.py', 'x_cm = abs(v0.x + v1.x) / 2', 'x_cm = (v0.x + v1.x) / 2')
    patch(r, 'forsys/virtual_edges.py', 'y_cm = abs(v0.y + v1.y) / 2', 'y_cm = (v0.y + v1.y) / 2')
@fix("F5")   # C19: slope-intercept form divided by a rounded x-difference
def f5(r):
    patch(r, 'forsys/tessellation.py', '''                y_coordinate = np.around(line_eq(tessellation.vertices[c[ii]],
                                                    tessellation.vertices[c[ii + 1]],
                                                    x_coordinate), 3)''', '''                y_coordinate = np.around(np.linspace(round(tessellation.vertices[c[ii]][1], 3),
                                                    round(tessellation.vertices[c[ii + 1]][1], 3), 2), 3)''')
@fix("F7")   # C02: a circle through two points is not unique; the fit returned the chord midpoint
def f7(r):
    patch(r, 'forsys/edge.py', '''        vobject = self.get_vertex_object_by_id(vid)
        if method == "edge":''', '''        vobject = self.get_vertex_object_by_id(vid)
        if method == "edge" and len(self.vertices) < 3:
            # a circle through two points is not unique: use the straight line
            return np.array(self.get_straight_edge_versor_from_vid(vid))
        if method == "edge":''')
@fix("F9")   # C14: edge records without attributes raised IndexError instead of density 1
def f9(r):
    patch(r, 'forsys/surface_evolver.py', '''                forces.append(float(lines[i].split()[4]) if lines[i].split()[3] == "density" else 1)''', '''                tokens = lines[i].split()
                forces.append(float(tokens[4]) if len(tokens) > 4 and tokens[3] == "density" else 1)''')
@fix("F10")  # C17: dict written under list.index (first equal element) but read by position
def f10(r):
    patch(r, 'forsys/myosin.py', '''        try:
            key_to_use = big_edges.index(big_edge)
        except ValueError:
            key_to_use = "ext_"+str(be_id)
''', '''        key_to_use = be_id
''')
@fix("F11")  # C09: triangle clean-up iterated the live ownEdges while SmallEdge.__del__ shrank it
def f11(r):
    patch(r, 'forsys/skeleton.py', "            its_edges = self.vertices[vertex_id_to_delete].ownEdges\n",
          "            its_edges = self.vertices[vertex_id_to_delete].ownEdges.copy()\n")
@fix("F14")  # C02: junction kept by counting non-zero float components instead of interfaces
def f14(r):
    patch(r, 'forsys/fmatrix.py', """            non_zero_x = np.count_nonzero(row_x)
            non_zero_y = np.count_nonzero(row_y)
            at_least_three = non_zero_x >= 3 or non_zero_y >= 3
            less_than_four = non_zero_x < 4 and non_zero_y < 4
""", """            # an interface contributes a unit vector: count the columns, not the components
            non_zero = np.count_nonzero((row_x != 0) | (row_y != 0))
            at_least_three = non_zero >= 3
            less_than_four = non_zero < 4
""")
@fix("F13")  # C16: default limit pi is attained by exactly antiparallel tangents (after F7: every straight-through junction)
def f13(r):
    patch(r, 'forsys/forsys.py', 'angle_limit=kwargs.get("angle_limit", np.pi),', 'angle_limit=kwargs.get("angle_limit", np.inf),')
@fix("F8a")  # C10 part of F8 only: fix_one_stress rebound self.matrix, so a (failing) fix_stress call corrupted later solves
def f8a(r):
    patch(r, 'forsys/fmatrix.py', """            self.matrix = np.delete(self.matrix, max_index, 1)
        else:
            raise(NotImplementedError)
        
        mprime = self.matrix.T @ self.matrix
        b = self.matrix.T @ b
""", """            matrix = np.delete(self.matrix, max_index, 1)
        else:
            raise(NotImplementedError)
        
        mprime = matrix.T @ matrix
        b = matrix.T @ b
""")
if __name__ == "__main__":
    root = sys.argv[1]
    for name in (sys.argv[2:] or list(FIXES)):
        FIXES[name](root); print("applied", name)

"""F14 (C02) and F13 (C16): hand-built 4x4 brick lattice (two- to four-point straight interfaces).
Usage: python triage_brick_F13_F14.py <repo-root>.  Unrepaired tree: 18 junctions with >=3 cells and >=3 internal
interfaces get no equations (F14).  With F7 repaired: the default angle limit pi flags 20 junctions and excludes 23
interfaces (F13)."""
import sys; sys.path.insert(0, sys.argv[1])
import warnings, numpy as np
import forsys as fs
warnings.simplefilter("ignore")
print("using", fs.__file__)
V=fs.vertex.Vertex
def brick(nrows=4, ncols=4):
    pts={}; vertices={}; edges={}; cells={}; ek={}
    def vid(p):
        if p not in pts:
            pts[p]=len(pts); vertices[pts[p]]=V(pts[p], float(p[0]), float(p[1]))
        return pts[p]
    allx=set()
    polys=[]
    for r in range(nrows):
        off=(r%2)
        for c in range(ncols):
            x0=2*c+off; polys.append((r,x0))
    corner={}
    for r,x0 in polys:
        for x in (x0,x0+2):
            corner.setdefault(r,set()).add(x); corner.setdefault(r+1,set()).add(x)
    cid=0
    for r,x0 in polys:
        bottom=sorted(x for x in corner[r] if x0<=x<=x0+2)
        top=sorted((x for x in corner[r+1] if x0<=x<=x0+2), reverse=True)
        cyc=[(x,r) for x in bottom]+[(x,r+1) for x in top]
        ids=[vid(p) for p in cyc]
        for i in range(len(ids)):
            a,b=ids[i],ids[(i+1)%len(ids)]
            if (a,b) not in ek and (b,a) not in ek:
                ek[(a,b)]=len(edges); edges[len(edges)]=fs.edge.SmallEdge(len(edges),vertices[a],vertices[b])
        cells[cid]=fs.cell.Cell(cid,[vertices[i] for i in ids]); cid+=1
    return vertices,edges,cells
v,e,c=brick()
fr=fs.frames.Frame(0,v,e,c,time=0)
print("cells",len(c),"interfaces",len(fr.big_edges_list),"internal",len(fr.internal_big_edges), "points/interface", sorted({len(b) for b in fr.big_edges_list}))
F=fs.ForSys({0:fr}, cm=False)
try:
    F.build_force_matrix(when=0)   # default angle_limit = pi
    fm=F.force_matrices[0]
    print("A3: default limit pi -> junctions flagged:", len(fm.deletes), " interfaces excluded:", len(fr.internal_big_edges)-len(fm.big_edges_to_use))
except Exception as ex: print("A3 default build:", type(ex).__name__, ex)
F.build_force_matrix(when=0, angle_limit=np.inf)
fm=F.force_matrices[0]
tj=[vid for vid in fm.tj_vertices if len(v[vid].ownCells)>2]
n3=[vid for vid in tj if sum(1 for be in v[vid].own_big_edges if not fr.big_edges[be].external)>=3]
print("A1: junctions with >=3 cells and >=3 internal interfaces:", len(n3), " with equations:", len(fm.map_vid_to_row), " missing:", len(set(n3)-set(fm.map_vid_to_row)))
for vid in list(set(n3)-set(fm.map_vid_to_row))[:2]:
    rx,ry=fm.get_row(vid); print("   junction", vid, (v[vid].x,v[vid].y), "row_x nz", np.count_nonzero(rx), "row_y nz", np.count_nonzero(ry))

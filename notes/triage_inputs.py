import os, warnings, tempfile, sys
import numpy as np
import forsys as fs
print("using", fs.__file__)
warnings.simplefilter("ignore")
V=fs.vertex.Vertex
def furrow(n=2):
    frames={}
    for ii in range(n):
        se = fs.surface_evolver.SurfaceEvolver(os.path.join("tests","data","furrow_gauss_velocity",f"stage{ii}.dmp"))
        frames[ii]=fs.frames.Frame(ii,se.vertices,se.edges,se.cells,time=ii,gt=True)
    return fs.ForSys(frames, cm=False)
# F1
F=furrow(); F.build_force_matrix(when=0, angle_limit=0.9*np.pi); F.solve_stress(when=0, method="lsq")
vals=list(F.forces[0].values()); print("F1 lsq+angle: n", len(vals), "n(-1)", sum(v==-1 for v in vals), "mean of kept %.4f"%np.mean([v for v in vals if v!=-1]))
F.build_force_matrix(when=0, angle_limit=0.9*np.pi); F.solve_stress(when=0)
v2=list(F.forces[0].values()); print("F1 default same positions of -1:", [i for i,v in enumerate(vals) if v==-1]==[i for i,v in enumerate(v2) if v==-1], "max diff %.2e"%max(abs(a-b) for a,b in zip(vals,v2)))
# F12
A=furrow(); A.build_force_matrix(when=0); A.solve_stress(when=0)
A.build_force_matrix(when=0, angle_limit=0.8*np.pi); A.solve_stress(when=0)
B=furrow(); B.build_force_matrix(when=0, angle_limit=0.8*np.pi); B.solve_stress(when=0)
ta=A.frames[0].get_tensions()["stress"].values; tb=B.frames[0].get_tensions()["stress"].values
print("F12 rows differing:", int(np.sum(~np.isclose(ta,tb))))
# F2
A=furrow()
for t in (0,1):
    A.build_force_matrix(when=t); A.solve_stress(when=t); A.build_pressure_matrix(when=t); A.solve_pressure(when=t, method="lagrange_pressure")
print("F2 pressures:", type(A.pressures).__name__, {k: len(v) for k,v in A.pressures.items()})
# F3
s,_c,_b=fs.stress_tensor.stress_tensor(A.frames[0], 12, 1); print("F3 grid=12 tensors", len(s)); s5,_,_=fs.stress_tensor.stress_tensor(A.frames[0],5,1); print("F3 grid=5 keys sample", sorted(s5)[:3])
A.frames[0].calculate_stress_tensor(12, 2); print("F3 principal", len(A.frames[0].principal_stress))
# F4
vs={0:V(0,-3.,-1.),1:V(1,-1.,-1.),2:V(2,-5,-2.),3:V(3,1.,-2.)}
es={0:fs.edge.SmallEdge(0,vs[0],vs[1]),1:fs.edge.SmallEdge(1,vs[2],vs[0]),2:fs.edge.SmallEdge(2,vs[1],vs[3])}
cs={0:fs.cell.Cell(0,[vs[2],vs[0],vs[1],vs[3]])}
vs2,es2,cs2,m=fs.virtual_edges.join_two_vertices([0,1],vs,es,cs,{}); nv=vs2[m[0]]; print("F4 merged at", (nv.x,nv.y))
# F5
v,e,c=fs.tessellation.create_lattice_elements([(i,j) for i in range(5) for j in range(5)], max_distance=10); print("F5 square grid cells", len(c))
vv,ee,cc=fs.tessellation.create_lattice(v,e,c); print("F5 lattice", len(vv),len(ee),len(cc), "area signs", {int(np.sign(x.get_area())) for x in cc.values()})
rng=np.random.default_rng(0); v,e,c=fs.tessellation.create_lattice_elements(rng.uniform(0,50,(40,2)).tolist()); print("F5 random cells", len(c))
# F7
a,b=V(0,0.,0.),V(1,2.,1.); k=fs.edge.SmallEdge(0,a,b); be=fs.edge.BigEdge(0,[a,b]); print("F7 2pt versor", be.get_versor_from_vertex(0), be.get_versor_from_vertex(1))
# F9
src=open("tests/data/furrow_gauss_velocity/stage0.dmp", newline="").read().replace("  2       2  305      density 1 \r\n","  2       2  305\r\n")
p=tempfile.mktemp(suffix=".dmp"); open(p,"w", newline="").write(src); se=fs.surface_evolver.SurfaceEvolver(p); print("F9 gt(edge2)=", se.edges[2].gt, "gt(edge1)=", se.edges[1].gt); os.remove(p)
# F10
from PIL import Image
img=Image.fromarray(np.full((50,50),7.0)); pts=[V(i,5+2*i,10) for i in range(5)]; keep=[fs.edge.SmallEdge(i,pts[i],pts[i+1]) for i in range(4)]
be=fs.edge.BigEdge(0,pts); print("F10", fs.myosin.get_intensities([be,be],img,integrate=False,normalize="average",layers=1))

import numpy as np, warnings
warnings.simplefilter("ignore")
import forsys.tessellation as ts
def run(name, pts, **kw):
    try:
        v, e, c = ts.create_lattice_elements(pts, **kw)
        V, E, C = ts.create_lattice(v, e, c)
        print(name, "ok: vertices", len(V), "edges", len(E), "cells", len(C))
    except BaseException as ex:
        print(name, "FAILED:", type(ex).__name__, str(ex)[:100])
# square grid 6x6 spacing 10
g = np.array([[10.0*i, 10.0*j] for i in range(6) for j in range(6)])
run("square 6x6", g)
# hexagonal
h = np.array([[10.0*i + (5.0 if j % 2 else 0.0), 8.660254037844386*j] for i in range(6) for j in range(6)])
run("hex 6x6", h)
rng = np.random.default_rng(0)
run("square jitter 1e-9", g + rng.normal(0, 1e-9, g.shape))
run("square jitter 1e-4", g + rng.normal(0, 1e-4, g.shape))
run("random", rng.uniform(0, 60, (40, 2)))

# F18 triage (C19): run as  cd /repo && PYTHONPATH=/repo /venv/bin/python /verif/notes/triage_tessellation_F18.py
# On a97458c (before the repair): 'square jitter 1e-9' and 'square jitter 1e-4' fail with
#   AssertionError: edge N with the same vertex twice
# because the two Voronoi corners that qhull produces for a nearly four-fold point are less than 1e-3 apart, round to the
# same three-decimal point, get the same vertex number and the segment between them is registered as an edge.
# With the repair all five inputs build, and the jittered grids give the mesh of the exact grid (25 vertices, 40 edges, 16 cells).

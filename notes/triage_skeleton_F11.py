"""F11 (C09): 64x64 skeleton with a one-pixel hole on a wall; on the unrepaired tree
create_lattice leaves an edge whose end vertex is no longer in the vertices dict."""
import warnings, io, contextlib, os, tempfile
import numpy as np
from PIL import Image
import forsys as fs
warnings.simplefilter("ignore")
def check(vertices, edges, cells):
    bad=[]
    for eid,e in edges.items():
        for v in (e.v1,e.v2):
            if vertices.get(v.id) is not v: bad.append(("edge references vertex not in dict", eid, v.id))
    for vid,v in vertices.items():
        for eid in v.ownEdges:
            if eid not in edges: bad.append(("v.ownEdges->missing edge", vid, eid))
        for cid in v.ownCells:
            if cid not in cells: bad.append(("v.ownCells->missing cell", vid, cid))
            elif v not in cells[cid].vertices: bad.append(("v lists cell not containing it", vid, cid))
    for cid,c in cells.items():
        for v in c.vertices:
            if vertices.get(v.id) is not v: bad.append(("cell->missing vertex", cid, v.id))
    return bad
img=np.zeros((64,64),dtype=np.uint8)
img[5,5:56]=255; img[55,5:56]=255; img[5:56,5]=255; img[5:56,55]=255   # frame
img[5:56,30]=255                                                      # middle wall
img[30,30]=0; img[30,29]=255; img[30,31]=255                          # one-pixel hole on the wall (rows=y, cols=x)
p=tempfile.mktemp(suffix=".tif"); Image.fromarray(img).save(p)
sk=fs.skeleton.Skeleton(p)
print("contours (cells):", len(sk.contours), [len(c) for c in sk.contours])
buf=io.StringIO()
try:
    with contextlib.redirect_stdout(buf):
        v,e,c=sk.create_lattice()
    print("create_lattice ok: V,E,C", len(v),len(e),len(c)); bad=check(v,e,c); print("violations", len(bad), bad[:5])
except Exception as ex:
    import traceback; traceback.print_exc()
print(buf.getvalue()[:300])
os.remove(p)

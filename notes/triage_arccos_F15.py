"""F15 (C16/C02): np.arccos(np.dot(t_a, t_b)) without clipping in ForceMatrix.get_angle_limited_edges.
forsys/__init__.py sets np.seterr(all='raise'); for exactly antiparallel unit tangents the float dot product can be
-1 - 1ulp, arccos is invalid and ForceMatrix construction raises FloatingPointError - with ANY angle limit,
including the default (the flagging loop runs unconditionally).
Usage: python triage_arccos_F15.py <repo-root>"""
import sys; sys.path.insert(0, sys.argv[1])
import warnings, math, numpy as np
import forsys as fs
warnings.simplefilter("ignore")
V = fs.vertex.Vertex
def brick(theta, nrows=4, ncols=4):
    pts = {}; vertices = {}; edges = {}; cells = {}; ek = {}
    c_, s_ = math.cos(theta), math.sin(theta)
    def vid(p):
        if p not in pts:
            pts[p] = len(pts); vertices[pts[p]] = V(pts[p], c_*p[0] - s_*p[1], s_*p[0] + c_*p[1])
        return pts[p]
    polys = [(r, 2*c + (r % 2)) for r in range(nrows) for c in range(ncols)]
    corner = {}
    for r, x0 in polys:
        for x in (x0, x0+2):
            corner.setdefault(r, set()).add(x); corner.setdefault(r+1, set()).add(x)
    cid = 0
    for r, x0 in polys:
        bottom = sorted(x for x in corner[r] if x0 <= x <= x0+2)
        top = sorted((x for x in corner[r+1] if x0 <= x <= x0+2), reverse=True)
        ids = [vid(p) for p in [(x, r) for x in bottom] + [(x, r+1) for x in top]]
        for i in range(len(ids)):
            a, b = ids[i], ids[(i+1) % len(ids)]
            if (a, b) not in ek and (b, a) not in ek:
                ek[(a, b)] = len(edges); edges[len(edges)] = fs.edge.SmallEdge(len(edges), vertices[a], vertices[b])
        cells[cid] = fs.cell.Cell(cid, [vertices[i] for i in ids]); cid += 1
    return vertices, edges, cells
bad = []
for k in range(0, 40):
    theta = 0.05 * k
    v, e, c = brick(theta)
    fr = fs.frames.Frame(0, v, e, c, time=0)
    F = fs.ForSys({0: fr}, cm=False)
    try:
        F.build_force_matrix(when=0)          # default limit
        F.solve_stress(when=0)
    except FloatingPointError as ex:
        bad.append((round(theta, 2), str(ex)))
print("rotations tried: 40; FloatingPointError at:", bad[:6], "... total", len(bad))
sys.exit(1 if bad else 0)

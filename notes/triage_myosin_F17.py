"""F17 (C17): the 'distinct pixels' of the layered band are collected as FLOAT positions (value, interp1d(value)) in a set;
two different float positions inside one pixel are both kept, and Image.getpixel truncates them to the same pixel, so
that pixel is summed more than once.  Usage: python triage_myosin_F17.py <repo-root>"""
import sys; sys.path.insert(0, sys.argv[1])
import numpy as np
from PIL import Image
import forsys as fs
class BE:            # the attributes get_intensities uses
    def __init__(self, pts):
        self.xs = [p[0] for p in pts]; self.ys = [p[1] for p in pts]; self.vertices = []; self.gt = 0
img = Image.fromarray(np.ones((60, 60), dtype=np.float32))
be = BE([(5, 5), (25, 12), (45, 30)])          # sloped polyline on integer end points
from forsys import myosin
pts, length = myosin.get_interpolation(be, 1)
pix = {(int(p[0]), int(p[1])) for p in pts}
val = myosin.get_intensities([be], img, integrate=True, normalize=None, layers=1)[0]
print("float positions in the band:", len(pts), " distinct pixels:", len(pix), " reported:", round(val, 4), " distinct-pixel sum / length:", round(len(pix) / length, 4))
sys.exit(0 if abs(val - len(pix) / length) < 1e-9 else 1)

"""E0/E2 - syntax-directed abstract evaluation of one function into canonical terms:
single pass over the structured control flow (no path enumeration, no solver), phi values
at joins, guard stacks per event, loop summaries (accumulations, list building) and bounded
inlining of small helpers.  The analysed code is never executed."""
import ast
from fractions import Fraction

from . import terms as T
from .model import AnalysisError, Func, Cls, NONE_RETURNING, MUTATORS

BUILTINS = {"len", "range", "abs", "round", "int", "float", "list", "set", "tuple", "dict", "enumerate", "zip",
            "sum", "max", "min", "map", "filter", "reversed", "sorted", "type", "isinstance", "str", "print",
            "any", "all", "next", "open", "super", "bool", "iter", "repr", "id", "hash", "getattr", "hasattr"}

ROUND_NAMES = {"round", "numpy.around", "numpy.round", "numpy.round_"}


class Event:
    def __init__(self, kind, guard, node, **kw):
        self.kind = kind
        self.guard = tuple(guard)
        self.node = node
        self.tries = ()
        self.__dict__.update(kw)

    def conds(self):
        out = []
        for g in self.guard:
            if g[0] in ("loop", "while", "except", "try"):
                continue
            out.extend(T.conjuncts(g))
        # "the sequence is not empty" says nothing inside a loop over that sequence (`if xs: for x in xs: ...`)
        nonempty = {T.ige(T.call("len", (g[2],)), 1) for g in self.guard if g[0] == "loop"}
        if nonempty:
            out = [c for c in out if c not in nonempty]
        return out

    def loops(self):
        return [g for g in self.guard if g[0] in ("loop", "while")]

    def excepts(self):
        return [g for g in self.guard if g[0] == "except"]

    def __repr__(self):
        return f"<Event {self.kind} line {getattr(self.node, 'lineno', '?')}>"


class Summary:
    def pos(self, e):
        """position of an event in program (evaluation) order; line numbers cannot be compared once a helper has been inlined"""
        idx = self.__dict__.get("_pos")
        if idx is None or len(idx) != len(self.events):
            idx = self.__dict__["_pos"] = {id(x): i for i, x in enumerate(self.events)}
        return idx.get(id(e), 10 ** 9)

    def __init__(self, func):
        self.func = func
        self.returns = []      # (guard tuple, term, node)
        self.loop_init = {}    # (name, loop id) -> value at loop entry
        self.defs = {}         # abstracted local -> list of defining terms
        self.events = []
        self.env = {}
        self.heap = {}

    def ret(self):
        """merged return value (phi over guarded returns); NONE if the function has no return"""
        if not self.returns:
            return T.NONE
        # return k is reached only when the earlier returns were not taken: a conjunct that merely restates that (the negation of an
        # earlier return's single-literal condition) is dropped, so `if a: return x` + `if b: return y` + `return z` is the same choice
        # as the if / elif / else chain
        known = set()
        cleaned = []
        for g, t, _ in self.returns:
            conds = [c for x in g if x[0] not in ("loop", "while", "except", "try") for c in T.conjuncts(x)]
            conds = [c for c in conds if c not in known]
            cleaned.append((conds, t))
            if len(conds) == 1:
                known.add(T.b_not(conds[0]))
        out = cleaned[-1][1]
        for conds, t in reversed(cleaned[:-1]):
            out = T.phi(T.b_and(*conds), t, out)
        return out

    def stores(self, attr=None):
        """stores into <x>.attr - also those made through a local name bound to the attribute (`verts = self.vertices; verts[i] = v`)"""
        return [e for e in self.events if e.kind == "store" and (attr is None or e.attr == attr or getattr(e, "alias_attr", None) == attr)]

    def calls(self, fname=None):
        return [e for e in self.events if e.kind == "call" and (fname is None or e.fname == fname or
                                                                  (isinstance(e.fname, tuple) and e.fname[1] == fname))]


class Eval:
    MAX_DEPTH = 3

    def __init__(self, repo, func, bindings=None, config=None, inline=(), depth=0, counter=None, self_term=None, heap=None,
                 abstract=()):
        self.repo = repo
        self.func = func
        self.config = config or {}
        self.inline = set(inline)
        self.depth = depth
        self.counter = counter if counter is not None else [0]
        self.env = {}
        self.heap = dict(heap or {})
        self.guard = []
        self.try_stack = []
        self.summary = Summary(func)
        self.abstract = set(abstract)     # locals kept symbolic ('$name'); their definitions go to summary.defs
        self.kwargs_name = None
        self._tc = T.FALSE
        self.alias = {}                   # local name -> attribute term it was bound to (`edges = self.ownEdges`)
        a = func.node.args
        names = [x.arg for x in a.posonlyargs + a.args + a.kwonlyargs]
        for n in names:
            self.env[n] = T.sym(n)
        if func.cls is not None and names and not func.is_static and func.parent is None:
            self.env[names[0]] = self_term if self_term is not None else T.sym("self")
        if a.vararg:
            self.env[a.vararg.arg] = T.sym("*" + a.vararg.arg)
        if a.kwarg:
            self.env[a.kwarg.arg] = T.sym("**" + a.kwarg.arg)
            self.kwargs_name = a.kwarg.arg
        # defaults for unbound parameters are NOT substituted (a parameter is universally quantified)
        if bindings:
            self.env.update(bindings)

    # ------------------------------------------------------------------ utilities
    def fresh(self):
        self.counter[0] += 1
        return self.counter[0]

    def emit(self, kind, node, **kw):
        e = Event(kind, self.guard, node, **kw)
        e.tries = tuple(self.try_stack)
        self.summary.events.append(e)
        return e

    def run(self):
        self.block(self.func.node.body)
        self.summary.env = dict(self.env)
        self.summary.heap = dict(self.heap)
        return self.summary

    # ------------------------------------------------------------------ statements
    def block(self, stmts):
        """returns None when control may fall through, else the terminator kind
        ('return' / 'raise' leave the function, 'break' / 'continue' flow to the loop end)"""
        g0 = len(self.guard)
        status = None
        for i, st in enumerate(stmts):
            n0, r0, gp = len(self.summary.events), len(self.summary.returns), len(self.guard)
            if isinstance(st, ast.If):
                status, absorbed = self.s_If(st, stmts[i + 1:])
                if absorbed:
                    break
            else:
                status = self.stmt(st)
            if status:
                break
            if i + 1 < len(stmts):
                self.guard_after_exits(n0, r0, gp)
        del self.guard[g0:]
        return status

    def guard_after_exits(self, n0, r0, gp):
        """a statement that fell through may still have left the function on some of its paths (`if a: if b: return x`): what follows
        runs under the negation of those paths.  Exits inside a loop or a try of the statement are not expressible and are ignored."""
        paths = []
        exits = [g for g, _, _ in self.summary.returns[r0:]] + [e.guard for e in self.summary.events[n0:] if e.kind == "raise"]
        for g in exits:
            extra = g[gp:]
            if tuple(g[:gp]) != tuple(self.guard[:gp]) or any(x[0] in ("loop", "while", "except", "try") for x in extra):
                continue
            if not extra:
                continue
            paths.append(T.b_and(*extra))
        if not paths:
            return
        for c in T.conjuncts(T.b_not(T.b_or(*paths))):
            if c not in self.guard and c != T.TRUE:
                self.guard.append(c)

    def gblock(self, g, stmts):
        """block under one more guard entry"""
        self.guard.append(g)
        try:
            return self.block(stmts)
        finally:
            self.guard.pop()

    def stmt(self, st):
        if isinstance(st, ast.If):
            return self.s_If(st)[0]
        m = getattr(self, "s_" + type(st).__name__, None)
        if m is None:
            raise AnalysisError(f"unsupported statement {type(st).__name__} at {self.func.where(st)}")
        return m(st)

    def s_Pass(self, st):
        return None

    s_Import = s_ImportFrom = s_Global = s_Nonlocal = s_Pass

    def s_Expr(self, st):
        if isinstance(st.value, ast.Constant):
            return None
        self.ev(st.value)
        return None

    def s_Return(self, st):
        v = self.ev(st.value) if st.value is not None else T.NONE
        self.summary.returns.append((tuple(self.guard), v, st))
        self.emit("return", st, value=v)
        return "return"

    def s_Raise(self, st):
        exc = self.ev(st.exc) if st.exc is not None else T.sym("<reraise>")
        self.emit("raise", st, exc=exc)
        return "raise"

    def s_Continue(self, st):
        return "continue"

    def s_Break(self, st):
        self.emit("break", st)
        return "break"

    def s_Assert(self, st):
        self.emit("assert", st, test=self.truth(self.ev(st.test)))
        return None

    def s_FunctionDef(self, st):
        self.env[st.name] = ("closure", f"{self.func.qualname}.<locals>.{st.name}")
        return None

    def s_ClassDef(self, st):
        self.env[st.name] = T.sym("class:" + st.name)
        return None

    def s_Delete(self, st):
        for t in st.targets:
            if isinstance(t, ast.Subscript):
                base = self.ev(t.value)
                key = self.ev_index(t.slice)
                self.emit("del", st, base=base, key=key, attr=self._attr_name(t.value))
            elif isinstance(t, ast.Name):
                self.env.pop(t.id, None)
            else:
                self.emit("del", st, base=self.ev(t), key=None, attr=self._attr_name(t))
        return None

    def _alias_attr(self, node):
        """the attribute a local container name stands for (`verts = self.vertices`), or None"""
        while isinstance(node, ast.Subscript):
            node = node.value
        if isinstance(node, ast.Name):
            v = self.alias.get(node.id)
            if isinstance(v, tuple) and v[0] == "attr" and isinstance(v[2], str):
                return v[2]
        return None

    def _attr_name(self, node):
        while isinstance(node, ast.Subscript):
            node = node.value
        if isinstance(node, ast.Attribute):
            return node.attr
        if isinstance(node, ast.Name):
            # a local that is just another name for an attribute (`verts = self.vertices`): the store goes to the attribute
            return "$" + node.id
        return None

    def s_Assign(self, st):
        v = self.ev(st.value)
        for t in st.targets:
            self.assign(t, v, st)
        # `name = obj.attr`: the local is another name for the attribute's container (until it is re-bound); a mutation through it
        # is a mutation of the attribute
        if len(st.targets) == 1 and isinstance(st.targets[0], ast.Name):
            if isinstance(st.value, ast.Attribute) and not isinstance(st.value.value, ast.Call):
                self.alias[st.targets[0].id] = T.attr(self.ev(st.value.value), st.value.attr)
            else:
                self.alias.pop(st.targets[0].id, None)
        return None

    def s_AnnAssign(self, st):
        if st.value is not None:
            self.assign(st.target, self.ev(st.value), st)
        return None

    def s_AugAssign(self, st):
        cur = self.ev(st.target)
        v = self.binop(st.op, cur, self.ev(st.value), st)
        self.assign(st.target, v, st, aug=True)
        return None

    def assign(self, target, v, st, aug=False):
        if isinstance(target, ast.Name):
            self.alias.pop(target.id, None)
            # `x = a if c else b` is `if c: x = a  else: x = b`: one guarded assignment event per arm (the bound value stays the choice)
            def assign_split(val):
                if val[0] == "phi" and not aug:
                    for cond, branch in ((val[1], val[2]), (T.b_not(val[1]), val[3])):
                        self.guard.append(cond)
                        try:
                            assign_split(branch)
                        finally:
                            self.guard.pop()
                else:
                    self.emit("assign", st, name=target.id, value=val, old=self.env.get(target.id), aug=aug)
            assign_split(v)
            if target.id in self.abstract:
                self.summary.defs.setdefault(target.id, []).append(v)
                v = T.sym("$" + target.id)
            self.env[target.id] = v
        elif isinstance(target, (ast.Tuple, ast.List)):
            n = len(target.elts)
            for i, e in enumerate(target.elts):
                if isinstance(e, ast.Starred):
                    self.assign(e.value, ("call", "unpack_rest", (v, T.num(i)), ()), st)
                else:
                    self.assign(e, T.idx(v, T.num(i)), st)
        elif isinstance(target, ast.Attribute):
            base = self.ev(target.value)
            tt = T.attr(base, target.attr)

            def attr_split(val):
                if val[0] == "phi" and not aug:
                    for cond, branch in ((val[1], val[2]), (T.b_not(val[1]), val[3])):
                        self.guard.append(cond)
                        try:
                            attr_split(branch)
                        finally:
                            self.guard.pop()
                else:
                    self.emit("store", st, target=tt, base=base, attr=target.attr, key=None, value=val, sub=False, aug=aug)
            attr_split(v)
            self.heap[tt] = v
        elif isinstance(target, ast.Subscript):
            base = self.ev(target.value)
            key = self.ev_index(target.slice)
            # an element store of a choice is the choice between two element stores (`r[i] = a if c else b`  ==  if c: r[i] = a  else: r[i] = b)
            def store_split(val):
                if val[0] == "phi" and not aug:
                    for cond, branch in ((val[1], val[2]), (T.b_not(val[1]), val[3])):
                        self.guard.append(cond)
                        try:
                            store_split(branch)
                        finally:
                            self.guard.pop()
                else:
                    self.emit("store", st, target=T.idx(base, key), base=base, attr=self._attr_name(target.value),
                              key=key, value=val, sub=True, aug=aug, alias_attr=self._alias_attr(target.value))
            store_split(v)
            upd = ("upd", base, key, v)
            if isinstance(target.value, ast.Name):
                self.env[target.value.id] = upd
            elif isinstance(target.value, ast.Attribute):
                self.heap[T.attr(self.ev(target.value.value), target.value.attr)] = upd
        elif isinstance(target, ast.Starred):
            self.assign(target.value, v, st)
        else:
            raise AnalysisError(f"unsupported assignment target at {self.func.where(st)}")

    def s_If(self, st, rest=()):
        """-> (status, absorbed).  When exactly one branch terminates, the other one absorbs the rest of
        the enclosing block (so `if c: ...; continue` + rest  ==  `if c: ... else: rest`)."""
        c = self.truth(self.ev(st.test))
        if c == T.TRUE:
            return self.block(st.body), False
        if c == T.FALSE:
            return self.block(st.orelse), False
        env0, heap0 = dict(self.env), dict(self.heap)
        s1 = self.gblock(c, st.body)
        env1, heap1 = self.env, self.heap
        self.env, self.heap = dict(env0), dict(heap0)
        nc = T.b_not(c)
        s2 = self.gblock(nc, st.orelse)
        env2, heap2 = self.env, self.heap
        absorbed = False
        if s1 and not s2 and rest:
            s2 = self.gblock(nc, list(rest))
            env2, heap2 = self.env, self.heap
            absorbed = True
        elif s2 and not s1 and rest:
            self.env, self.heap = env1, heap1
            s1 = self.gblock(c, list(rest))
            env1, heap1 = self.env, self.heap
            absorbed = True
        exits = ("return", "raise")
        f1, f2 = s1 not in exits, s2 not in exits       # does the environment flow on?
        if f1 and f2:
            self.env = self.merge(c, env1, env2)
            self.heap = self.merge(c, heap1, heap2)
        elif f1:
            self.env, self.heap = env1, heap1
        else:
            self.env, self.heap = env2, heap2
        if s1 and s2:
            status = s1 if (s1 in exits and s2 in exits) or s1 == s2 else ("break" if not (s1 in exits and s2 in exits) else "return")
            if s1 in exits and s2 not in exits:
                status = s2
            elif s2 in exits and s1 not in exits:
                status = s1
            return status, absorbed
        if not s1 and not s2:
            return None, absorbed
        # one branch terminated and there was nothing left to absorb: the block may complete normally
        if (s1 in exits and not s2) or (s2 in exits and not s1):
            self.guard.append(nc if s1 else c)      # rest of the enclosing block (none here) runs under the other branch
        return None, absorbed

    @staticmethod
    def merge(c, a, b):
        out = {}
        for k in set(a) | set(b):
            if k in a and k in b:
                out[k] = T.phi(c, a[k], b[k])
            elif k in a:
                # a heap entry missing on one side still holds whatever the attribute held before (the key term itself)
                out[k] = T.phi(c, a[k], ("undef", str(k))) if not isinstance(k, tuple) else T.phi(c, a[k], k)
            else:
                out[k] = T.phi(c, ("undef", str(k)), b[k]) if not isinstance(k, tuple) else T.phi(c, k, b[k])
        return out

    @staticmethod
    def rebound_names(stmts):
        """names that are (re)bound, not merely mutated through a method or an element store"""
        out = set()
        for st in stmts:
            for n in ast.walk(st):
                if isinstance(n, ast.Name) and isinstance(n.ctx, (ast.Store, ast.Del)):
                    out.add(n.id)
        return out

    @staticmethod
    def assigned_names(stmts):
        out = set()
        for st in stmts:
            for n in ast.walk(st):
                if isinstance(n, ast.Name) and isinstance(n.ctx, (ast.Store, ast.Del)):
                    out.add(n.id)
                elif isinstance(n, ast.Call) and isinstance(n.func, ast.Attribute) and isinstance(n.func.value, ast.Name) \
                        and n.func.attr in ("append", "add", "update", "remove", "insert", "extend", "clear", "pop", "setdefault", "popitem",
                                            "sort", "reverse", "discard"):
                    out.add(n.func.value.id)
                elif isinstance(n, (ast.Subscript,)) and isinstance(n.ctx, ast.Store) and isinstance(n.value, ast.Name):
                    out.add(n.value.id)
        return out

    def bind_target(self, target, elem):
        """bind loop / comprehension target names to (components of) the element term"""
        if isinstance(target, ast.Name):
            self.alias.pop(target.id, None)
            self.env[target.id] = elem
        elif isinstance(target, (ast.Tuple, ast.List)):
            for i, e in enumerate(target.elts):
                self.bind_target(e, T.idx(elem, T.num(i)))
        elif isinstance(target, ast.Starred):
            self.bind_target(target.value, elem)
        else:
            raise AnalysisError(f"unsupported loop target at {self.func.where(target)}")

    def s_If_stmt(self, st):
        return self.s_If(st)[0]

    def s_For(self, st):
        it = self.ev(st.iter)
        # a loop over a short literal sequence (`for v, ids in [(v0, ids0), (v1, ids1)]:`) is its body written out once per element
        if it[0] == "seq" and 1 <= len(it[1]) <= 4 and not st.orelse and \
                not any(isinstance(n_, (ast.Break, ast.Continue)) for b_ in st.body for n_ in ast.walk(b_)):
            for elem in it[1]:
                self.bind_target(st.target, elem)
                status = self.block(st.body)
                if status:
                    return status
            return None
        L = self.fresh()
        bv = ("bv", L)
        rebound = self.rebound_names(st.body)
        # a local that names an attribute's container and is only mutated in the body is not loop-carried: the attribute is (heap)
        carried = sorted(n for n in self.assigned_names(st.body) if n in self.env and not (n in self.alias and n not in rebound))
        init = {n: self.env[n] for n in carried}
        heap0 = dict(self.heap)
        for n in carried:
            self.env[n] = ("lc", n, L)
            self.summary.loop_init[(n, L)] = init[n]
        self.bind_target(st.target, bv)
        n0, r0 = len(self.summary.events), len(self.summary.returns)
        li0 = set(self.summary.loop_init)
        self.gblock(("loop", L, it), st.body)
        it, inner_bvs = self.split_product(L, it, n0, r0, li0)
        it = self.canon_body(L, it, n0, r0, li0)
        # summarise loop-carried values
        for n in carried:
            new = self.env.get(n)
            if inner_bvs and new is not None and any(T.contains(new, b) for b in inner_bvs):
                lc = ("lc", n, L)
                if new[0] == "app" and new[1] == lc and not T.contains(new[2], lc) and self._split_inner is not None:
                    # a list built over both loops of a split product: the nested comprehension [elt for a in X for b in Y]
                    fm = ("flatmap", mk_map(new[2], inner_bvs[0], self._split_inner), ("bv", L), it, T.TRUE)
                    self.env[n] = fm if init[n] == T.seq(()) else ("concat", init[n], fm)
                else:
                    self.env[n] = ("loopres", n, L, init[n], new)      # accumulated over both loops of a split product: left opaque
            else:
                self.env[n] = self.loop_summary(n, L, it, init[n], new)
        # heap entries changed inside the loop become opaque
        for k in set(self.heap) | set(heap0):
            if self.heap.get(k) != heap0.get(k):
                self.heap[k] = ("loopres", T.show(k), L, heap0.get(k, T.NONE), self.heap.get(k, T.NONE))
        if st.orelse:
            self.block(st.orelse)
        return None

    def split_product(self, L, it, n0, r0, li0):
        """`for a, b in itertools.product(X, Y)` is `for a in X: for b in Y`: the loop entry is replaced by two nested ones (the second
        with a fresh bound variable) and each is canonicalised on its own.  -> (outer iterator, [inner bound variables])"""
        self._split_inner = None
        if not (it[0] == "call" and it[1] == "itertools.product" and len(it[2]) == 2 and not it[3]):
            return it, []
        X, Y = it[2]
        bv = ("bv", L)
        L2 = self.fresh()
        bv2 = ("bv", L2)
        mapping = {T.idx(bv, T.num(0)): bv, T.idx(bv, T.num(1)): bv2}

        def f(t):
            return T.substitute(t, mapping)

        def fg(guard):
            out = []
            for g in rewrite_guard(guard, f):
                if g[0] == "loop" and g[1] == L:
                    out.append(("loop", L, X))
                    out.append(("loop", L2, Y))
                else:
                    out.append(g)
            return tuple(out)
        for e in self.summary.events[n0:]:
            g_old = e.guard
            rewrite_event(e, f)
            e.guard = fg(g_old)
        self.env = {k: (f(v) if isinstance(v, tuple) else v) for k, v in self.env.items()}
        self.heap = {(f(k) if isinstance(k, tuple) else k): (f(v) if isinstance(v, tuple) else v) for k, v in self.heap.items()}
        self.summary.returns[r0:] = [(fg(g), f(t), n) for g, t, n in self.summary.returns[r0:]]
        for k in list(self.summary.loop_init):
            if k not in li0 and isinstance(self.summary.loop_init[k], tuple):
                self.summary.loop_init[k] = f(self.summary.loop_init[k])
        self._split_inner = self.canon_body(L2, Y, n0, r0, li0)
        return X, [bv2]

    _effects_cache = {}

    def _effects_of(self, qualname):
        key = (id(self.repo), qualname)
        if key not in Eval._effects_cache:
            try:
                eff = self.repo.transitive_attr_effects(qualname, kinds=("elem", "mut", "del_elem", "rebind"))
                Eval._effects_cache[key] = {a for a in eff if not a.startswith("$")}
            except Exception:
                Eval._effects_cache[key] = set()
        return Eval._effects_cache[key]

    def canon_body(self, L, it, n0, r0, li0, extra=None):
        """rewrite everything the body of loop L produced into the canonical spelling of its iteration idiom"""
        bv = ("bv", L)
        evs = self.summary.events[n0:]
        terms = []
        for e in evs:
            for k in TERM_FIELDS:
                v = e.__dict__.get(k)
                if isinstance(v, tuple):
                    terms.append(v)
            terms.extend(e.__dict__.get("args", ()))
            terms.extend(v for _, v in e.__dict__.get("kw", ()))
            for g in e.guard:
                if g[0] in ("loop", "while"):
                    if g[1] != L:
                        terms.append(g[2])
                elif g[0] not in ("except", "try"):
                    terms.append(g)
        # the loop targets themselves (left bound to a component of the bound variable after the loop) are not a use of that component
        own = (bv, T.idx(bv, T.num(0)), T.idx(bv, T.num(1)))
        terms.extend(v for v in self.env.values() if isinstance(v, tuple) and v not in own)
        terms.extend(v for v in self.heap.values() if isinstance(v, tuple))
        terms.extend(k for k in self.heap if isinstance(k, tuple))
        for g, t, _ in self.summary.returns[r0:]:
            terms.append(t)
            terms.extend(x for x in g if x[0] not in ("loop", "while", "except", "try"))
        terms.extend(v for k, v in self.summary.loop_init.items() if k not in li0 and isinstance(v, tuple))
        terms.extend(extra or ())
        mutated = []
        for e in evs:
            if e.kind == "call" and isinstance(e.fname, tuple) and e.fname[0] == "m" and e.fname[1] in MUTATORS and isinstance(e.recv, tuple):
                mutated.append(e.recv)
            elif e.kind == "store" and isinstance(e.base, tuple):
                mutated.append(e.base)
            elif e.kind == "del" and isinstance(e.base, tuple):
                mutated.append(e.base)
        for m in list(mutated):
            for x in T.subterms(m):
                if x[0] == "lc" and isinstance(self.summary.loop_init.get((x[1], x[2])), tuple):
                    mutated.append(self.summary.loop_init[(x[1], x[2])])
        # ... and what the package functions called in the body change (transitively): `edges[e].replace_vertex(old, new)` removes e from
        # old.ownEdges, so a snapshot of old.ownEdges must not be fused with the live list either
        if any(x[0] == "attr" for x in T.subterms(it)):
            attrs = set()
            for e in evs:
                if e.kind == "call" and isinstance(getattr(e, "target", None), str) and e.target in self.repo.functions:
                    attrs |= self._effects_of(e.target)
            for x in T.subterms(it):
                if x[0] == "attr" and x[2] in attrs:
                    mutated.append(x)
        it2, mappings, conds = canon_loop(bv, it, terms, mutated)
        if not mappings and it2 == it and not conds:
            return it

        def f(t):
            return apply_mappings(t, mappings)

        def fg(guard):
            out = []
            for g in rewrite_guard(guard, f):
                if g[0] == "loop" and g[1] == L:
                    out.append(("loop", L, it2))
                    out.extend(conds)
                else:
                    out.append(g)
            return tuple(out)
        for e in evs:
            g_old = e.guard
            rewrite_event(e, f)
            e.guard = fg(g_old)
        self.env = {k: (f(v) if isinstance(v, tuple) else v) for k, v in self.env.items()}
        self.heap = {(f(k) if isinstance(k, tuple) else k): (f(v) if isinstance(v, tuple) else v) for k, v in self.heap.items()}
        self.summary.returns[r0:] = [(fg(g), f(t), n) for g, t, n in self.summary.returns[r0:]]
        for k in list(self.summary.loop_init):
            if k not in li0 and isinstance(self.summary.loop_init[k], tuple):
                self.summary.loop_init[k] = f(self.summary.loop_init[k])
        return it2

    def loop_summary(self, name, L, it, init, new):
        lc = ("lc", name, L)
        bv = ("bv", L)
        if new is None or new == lc:
            return init
        if not T.contains(new, lc):
            # overwritten in every iteration: value of the last iteration (or init for an empty loop)
            return ("last", new, bv, it, init)
        # conditional / unconditional list building:  app(lc, v) possibly under phi
        def peel(t):
            """-> (elt, cond) if t == app(lc, elt) under cond else None"""
            if t[0] == "app" and t[1] == lc and not T.contains(t[2], lc):
                return t[2], T.TRUE
            if t[0] == "phi":
                if t[3] == lc:
                    r = peel(t[2])
                    if r:
                        return r[0], T.b_and(t[1], r[1])
                if t[2] == lc:
                    r = peel(t[3])
                    if r:
                        return r[0], T.b_and(T.b_not(t[1]), r[1])
            return None
        r = peel(new)
        if r and not T.contains(r[1], lc):
            m = mk_map(r[0], bv, it, r[1])
            if init == T.seq(()):
                return m
            return ("concat", init, m)
        # d = {}; for ...: d[k] = v   ==   {k: v for ...}   (later keys win in both)
        if init == ("dict", ()):
            def peel_upd(t):
                if t[0] == "upd" and t[1] == lc and not T.contains(t[2], lc) and not T.contains(t[3], lc):
                    return T.seq((t[2], t[3])), T.TRUE
                if t[0] == "phi" and not T.contains(t[1], lc):
                    if t[3] == lc:
                        r_ = peel_upd(t[2])
                        if r_:
                            return r_[0], T.b_and(t[1], r_[1])
                    if t[2] == lc:
                        r_ = peel_upd(t[3])
                        if r_:
                            return r_[0], T.b_and(T.b_not(t[1]), r_[1])
                return None
            r_ = peel_upd(new)
            if r_:
                return ("call", "dict", (mk_map(r_[0], bv, it, r_[1]),), ())
        if new[0] in ("union", "concat") and new[1] == lc and not T.contains(new[2], lc):
            return (new[0], init, ("flatmap", new[2], bv, it, T.TRUE))
        if new[0] == "phi" and not T.contains(new[1], lc):
            # conditional union / concatenation: only the iterations satisfying the condition contribute
            for branch, other, cond in ((new[2], new[3], new[1]), (new[3], new[2], T.b_not(new[1]))):
                if other == lc and branch[0] in ("union", "concat") and branch[1] == lc and not T.contains(branch[2], lc):
                    return (branch[0], init, ("flatmap", branch[2], bv, it, cond))
        # numeric accumulation: lc + f
        d = T.sub(new, lc)
        if not T.contains(d, lc):
            return T.add(init, ("sum", d, bv, it, T.TRUE))
        if new[0] == "phi":
            for branch, other, cond in ((new[2], new[3], new[1]), (new[3], new[2], T.b_not(new[1]))):
                if other == lc:
                    d = T.sub(branch, lc)
                    if not T.contains(d, lc) and not T.contains(cond, lc):
                        return T.add(init, ("sum", d, bv, it, cond))
        return ("loopres", name, L, init, new)

    def s_While(self, st):
        L = self.fresh()
        rebound = self.rebound_names(st.body)
        carried = sorted(n for n in self.assigned_names(st.body) if n in self.env and not (n in self.alias and n not in rebound))
        init = {n: self.env[n] for n in carried}
        for n in carried:
            self.env[n] = ("lc", n, L)
            self.summary.loop_init[(n, L)] = init[n]
        c = self.truth(self.ev(st.test))
        self.gblock(("while", L, c), st.body)
        for n in carried:
            new = self.env.get(n)
            self.env[n] = ("loopres", n, L, init[n], new) if new != ("lc", n, L) else init[n]
        if st.orelse:
            self.block(st.orelse)
        return None

    def s_With(self, st):
        for item in st.items:
            v = self.ev(item.context_expr)
            if item.optional_vars is not None:
                self.assign(item.optional_vars, v, st)
        return self.block(st.body)

    def s_Try(self, st):
        Tid = self.fresh()
        handlers = []
        for h in st.handlers:
            handlers.append(self.exc_types(h.type))
        env0, heap0 = dict(self.env), dict(self.heap)
        self.try_stack.append((Tid, tuple(handlers)))
        sb = self.gblock(("try", Tid), st.body)
        self.try_stack.pop()
        env_b, heap_b = self.env, self.heap
        results = []
        for h, types in zip(st.handlers, handlers):
            self.env, self.heap = dict(env0), dict(heap0)
            # names assigned in the body may or may not be bound when the handler runs
            for n in self.assigned_names(st.body):
                if n in env_b and env_b.get(n) != env0.get(n):
                    self.env[n] = T.phi(("maybe", Tid), env_b[n], env0[n]) if n in env0 else env_b[n]
            if h.name:
                self.env[h.name] = T.sym("exc:" + h.name)
            sh = self.gblock(("except", Tid, types), h.body)
            results.append((types, sh, self.env, self.heap))
        # join
        if sb:
            cont = [(t, e, hp) for t, s, e, hp in results if not s]
            if not cont:
                self.env, self.heap = env_b, heap_b
                return sb
            env, heap = cont[-1][1], cont[-1][2]
            for t, e, hp in reversed(cont[:-1]):
                env = self.merge(("exc", Tid, t), e, env)
                heap = self.merge(("exc", Tid, t), hp, heap)
            self.env, self.heap = env, heap
        else:
            env, heap = env_b, heap_b
            for t, s, e, hp in reversed(results):
                if s:
                    continue
                env = self.merge(("exc", Tid, t), e, env)
                heap = self.merge(("exc", Tid, t), hp, heap)
            self.env, self.heap = env, heap
        if st.orelse:
            s = self.block(st.orelse)
            if s:
                return s
        if st.finalbody:
            s = self.block(st.finalbody)
            if s:
                return s
        return None

    def exc_types(self, node):
        if node is None:
            return ("BaseException",)
        if isinstance(node, ast.Tuple):
            out = []
            for e in node.elts:
                out.extend(self.exc_types(e))
            return tuple(sorted(out))
        d = self.repo.dotted(node, self.func.module)
        if d:
            return (d.split(".")[-1],)
        return (ast.unparse(node).split(".")[-1],)

    # ------------------------------------------------------------------ expressions
    def truth(self, t):
        if t[0] == "num":
            return ("bool", t[1] != 0)
        if t[0] == "seq":
            return ("bool", len(t[1]) > 0)
        if t[0] == "none":
            return T.FALSE
        if t[0] == "call" and t[1] == "bool" and len(t[2]) == 1 and not t[3]:
            return self.truth(t[2][0])          # the truth value of bool(x) is the truth value of x
        if t[0] in ("map", "concat", "flatmap") or (t[0] == "phi" and all(b_[0] in ("map", "concat", "flatmap", "seq") for b_ in (t[2], t[3]))):
            # a list is true when it is not empty: `if xs:` is `if len(xs) != 0:`
            return T.ige(simplify_call("len", None, (t,), ()), 1)
        return t

    def ev(self, node):
        m = getattr(self, "e_" + type(node).__name__, None)
        if m is None:
            raise AnalysisError(f"unsupported expression {type(node).__name__} at {self.func.where(node)}")
        return m(node)

    def ev_index(self, node):
        if isinstance(node, ast.Slice):
            return ("slice",
                    self.ev(node.lower) if node.lower else T.NONE,
                    self.ev(node.upper) if node.upper else T.NONE,
                    self.ev(node.step) if node.step else T.NONE)
        if isinstance(node, ast.Tuple):
            return T.seq(self.ev_index(e) for e in node.elts)
        return self.ev(node)

    def e_Constant(self, n):
        v = n.value
        if v is None:
            return T.NONE
        if isinstance(v, (bool, int, float)):
            return T.num(v)
        if isinstance(v, str):
            return ("str", v)
        if v is Ellipsis:
            return T.sym("...")
        return T.sym(repr(v))

    def e_Name(self, n):
        if n.id in self.alias and self.alias[n.id] in self.heap:
            return self.heap[self.alias[n.id]]          # the aliased container with the mutations made since
        if n.id in self.env:
            return self.env[n.id]
        d = self.repo.dotted(n, self.func.module)
        if d is not None:
            if d in self.repo.functions:
                return ("fn", d)
            if d in self.repo.classes:
                return ("cls", d)
            return ("mod", d)
        # enclosing function's variables are free symbols
        return T.sym(n.id)

    def e_Attribute(self, n):
        base = self.ev(n.value)
        if base[0] == "mod":
            d = self.repo._canon(f"{base[1]}.{n.attr}")
            if d in self.repo.functions:
                return ("fn", d)
            if d in self.repo.classes:
                return ("cls", d)
            return ("mod", MOD_SYNONYMS.get(d, d))
        t = self.attr_of(base, n.attr)
        if t in self.heap:
            return self.heap[t]
        if n.attr == "T":
            return ("call", "transpose", (base,), ())
        return t

    def attr_of(self, base, name):
        """attribute read; a field of a freshly constructed dataclass folds to the constructor argument"""
        if base[0] == "phi":
            return T.phi(base[1], self.attr_of(base[2], name), self.attr_of(base[3], name))
        if base[0] == "call" and isinstance(base[1], str) and base[1].startswith("new:"):
            c = self.repo.classes.get(base[1][4:])
            if c is not None and c.is_dataclass and name in c.fields:
                fields = list(c.fields)
                i = fields.index(name)
                if i < len(base[2]):
                    return base[2][i]
                for k, v in base[3]:
                    if k == name:
                        return v
        return T.attr(base, name)

    def e_Yield(self, n):
        v = self.ev(n.value) if n.value is not None else T.NONE
        self.emit("yield", n, value=v)
        return T.NONE

    e_YieldFrom = e_Yield

    def e_Subscript(self, n):
        base = self.ev(n.value)
        key = self.ev_index(n.slice)
        if base[0] == "upd" and base[2] == key:
            return base[3]
        if key[0] == "slice":
            return self.slice_of(base, key)
        return T.idx(base, key)

    def slice_of(self, base, key):
        if base[0] in ("seq", "arr"):
            def c(x):
                return None if x == T.NONE else int(x[1]) if x[0] == "num" and x[1].denominator == 1 else "?"
            lo, hi, step = c(key[1]), c(key[2]), c(key[3])
            if "?" not in (lo, hi, step):
                return (base[0], tuple(base[1][slice(lo, hi, step)]))
        return ("idx", base, key)

    def e_Slice(self, n):
        return self.ev_index(n)

    def e_Tuple(self, n):
        return T.seq(self.ev(e) for e in n.elts)

    e_List = e_Tuple

    def e_Set(self, n):
        return ("set", tuple(sorted((self.ev(e) for e in n.elts), key=repr)))

    def e_Dict(self, n):
        items = []
        for k, v in zip(n.keys, n.values):
            if k is None:
                items.append((("str", "**"), self.ev(v)))
            else:
                items.append((self.ev(k), self.ev(v)))
        return ("dict", tuple(items))

    def e_Starred(self, n):
        return ("star", self.ev(n.value))

    def e_JoinedStr(self, n):
        parts = []
        for v in n.values:
            if isinstance(v, ast.Constant):
                parts.append(("str", v.value))
            else:
                parts.append(self.ev(v))
        return mk_fstr(tuple(parts))

    def e_FormattedValue(self, n):
        spec = self.ev(n.format_spec) if n.format_spec is not None else T.NONE
        return ("fmt", self.ev(n.value), spec, n.conversion)

    def e_NamedExpr(self, n):
        v = self.ev(n.value)
        self.env[n.target.id] = v
        return v

    def e_UnaryOp(self, n):
        v = self.ev(n.operand)
        if isinstance(n.op, ast.USub):
            return T.neg(v)
        if isinstance(n.op, ast.UAdd):
            return v
        if isinstance(n.op, ast.Not):
            return T.b_not(self.truth(v))
        return ("call", "invert", (v,), ())

    def e_BinOp(self, n):
        return self.binop(n.op, self.ev(n.left), self.ev(n.right), n)

    @staticmethod
    def listy(t):
        return t[0] in ("seq", "map", "concat", "flatmap", "rep") or (t[0] == "call" and t[1] in ("list", "sorted"))

    def binop(self, op, a, b, node):
        if isinstance(op, ast.Add) and (a[0] in ("fstr", "fmt") or b[0] in ("fstr", "fmt")) and a[0] in ("fstr", "fmt", "str") and b[0] in ("fstr", "fmt", "str"):
            # concatenation of formatted strings is one formatted string
            return mk_fstr((a[1] if a[0] == "fstr" else (a,)) + (b[1] if b[0] == "fstr" else (b,)))
        if isinstance(op, ast.Add):
            if (self.listy(a) or self.listy(b)) and not (a[0] == "seq" and b[0] == "seq") and a[0] != "arr" and b[0] != "arr":
                # python list concatenation is not commutative: keep the order
                if a == T.seq(()):
                    return b
                if b == T.seq(()):
                    return a
                return ("concat", a, b)
            return T.add(a, b)
        if isinstance(op, ast.Mult) and (a[0] == "seq" or b[0] == "seq") and a[0] != "arr" and b[0] != "arr":
            s_, n_ = (a, b) if a[0] == "seq" else (b, a)
            if not (n_[0] == "num" and n_[1].denominator == 1 and n_[1] >= 0) and n_[0] not in ("seq",):
                return ("rep", s_, n_)               # list repetition by a symbolic count
        if isinstance(op, ast.Sub):
            return T.sub(a, b)
        if isinstance(op, ast.Mult):
            return T.mul(a, b)
        if isinstance(op, ast.Div):
            return T.div(a, b)
        if isinstance(op, ast.Pow):
            if b[0] == "num":
                return T.power(a, b[1])
            return ("call", "pow", (a, b), ())
        name = {ast.MatMult: "matmul", ast.Mod: "mod", ast.FloorDiv: "floordiv", ast.BitOr: "bitor",
                ast.BitAnd: "bitand", ast.BitXor: "bitxor", ast.LShift: "lshift", ast.RShift: "rshift"}[type(op)]
        if name in ("bitor", "bitand", "bitxor"):
            a, b = sorted([a, b], key=repr)
        return ("call", name, (a, b), ())

    def e_BoolOp(self, n):
        vals = [self.truth(self.ev(v)) for v in n.values]
        return T.b_and(*vals) if isinstance(n.op, ast.And) else T.b_or(*vals)

    def e_Compare(self, n):
        left = self.ev(n.left)
        out = []
        for op, c in zip(n.ops, n.comparators):
            right = self.ev(c)
            out.append(T.cmp(type(op).__name__, left, right))
            left = right
        return T.b_and(*out)

    def e_IfExp(self, n):
        c = self.truth(self.ev(n.test))
        return T.phi(c, self.ev(n.body), self.ev(n.orelse))

    def e_Lambda(self, n):
        saved = dict(self.env)
        L = self.fresh()
        params = []
        for i, a in enumerate(n.args.args):
            bv = ("bv", L * 1000 + i)
            self.env[a.arg] = bv
            params.append(bv)
        if n.args.vararg:
            self.env[n.args.vararg.arg] = ("bv", L * 1000 + 999)
        body = self.ev(n.body)
        self.env = saved
        return ("lambda", tuple(params), body)

    def comp(self, n, kind):
        saved = dict(self.env)
        n0 = len(self.summary.events)
        gens = []
        for g in n.generators:
            it = self.ev(g.iter)
            L = self.fresh()
            bv = ("bv", L)
            if it[0] == "call" and it[1] == "itertools.product" and len(it[2]) == 2 and not it[3] and isinstance(g.target, (ast.Tuple, ast.List)) \
                    and len(g.target.elts) == 2:
                # `for a, b in itertools.product(X, Y)` is `for a in X for b in Y`
                L2 = self.fresh()
                bv2 = ("bv", L2)
                self.bind_target(g.target.elts[0], bv)
                self.bind_target(g.target.elts[1], bv2)
                cond = T.b_and(*[self.truth(self.ev(c)) for c in g.ifs]) if g.ifs else T.TRUE
                gens.append((bv, it[2][0], T.TRUE))
                gens.append((bv2, it[2][1], cond))
                continue
            self.bind_target(g.target, bv)
            cond = T.b_and(*[self.truth(self.ev(c)) for c in g.ifs]) if g.ifs else T.TRUE
            gens.append((bv, it, cond))
        if kind == "dict":
            elt = T.seq((self.ev(n.key), self.ev(n.value)))
        else:
            elt = self.ev(n.elt)
        # side effects inside a comprehension ([s.add(x) for x in xs]) survive it
        changed = {}
        for name, v in self.env.items():
            if name in saved and saved[name] != v:
                old = saved[name]
                if v[0] == "app" and v[1] == old and len(gens) == 1:
                    bv, it, cond = gens[0]
                    changed[name] = ("union", old, mk_map(v[2], bv, it, cond))
                else:
                    changed[name] = ("loopres", name, gens[0][0][1], old, v)
        self.env = saved
        self.env.update(changed)
        # canonical iteration idioms, outermost generator first
        for i in range(len(gens)):
            bv, it, cond = gens[i]
            terms = [elt, cond] + [x for g in gens[i + 1:] for x in (g[1], g[2])] + [v for v in changed.values()]
            for e in self.summary.events[n0:]:
                terms.extend(e.__dict__.get("args", ()))
                if isinstance(e.__dict__.get("recv"), tuple):
                    terms.append(e.recv)
            it2, mappings, conds = canon_loop(bv, it, terms)
            if mappings or it2 != it or conds:
                f = (lambda t, m=mappings: apply_mappings(t, m))
                elt = f(elt)
                gens[i] = (bv, it2, T.b_and(*(conds + [f(cond)])))
                for j in range(i + 1, len(gens)):
                    gens[j] = (gens[j][0], f(gens[j][1]), f(gens[j][2]))
                for name in changed:
                    self.env[name] = changed[name] = f(changed[name])
                for e in self.summary.events[n0:]:
                    rewrite_event(e, f)
        # `for x in (t,)` inside a comprehension is a let-binding: x = t
        kept = []
        for i, (bv, it, cond) in enumerate(gens):
            if it[0] == "seq" and len(it[1]) == 1 and len(gens) > 1:
                m = {bv: it[1][0]}
                elt = T.substitute(elt, m)
                c_here = T.substitute(cond, m)
                gens[i + 1:] = [(b2, T.substitute(i2, m), T.substitute(c2, m)) for b2, i2, c2 in gens[i + 1:]]
                if kept:
                    b0, i0, c0 = kept[-1]
                    kept[-1] = (b0, i0, T.b_and(c0, c_here))
                elif c_here != T.TRUE and i + 1 < len(gens):
                    b2, i2, c2 = gens[i + 1]
                    gens[i + 1] = (b2, i2, T.b_and(c_here, c2))
                continue
            kept.append(gens[i])
        gens = kept or gens
        out = None
        for bv, it, cond in reversed(gens):
            if out is None:
                out = mk_map(elt, bv, it, cond)
            else:
                out = ("flatmap", out, bv, it, cond)
        if kind == "set":
            return ("call", "set", (out,), ())
        if kind == "dict":
            return ("call", "dict", (out,), ())
        return out

    def e_ListComp(self, n):
        return self.comp(n, "list")

    def e_GeneratorExp(self, n):
        return self.comp(n, "gen")

    def e_SetComp(self, n):
        return self.comp(n, "set")

    def e_DictComp(self, n):
        return self.comp(n, "dict")

    def e_Await(self, n):
        return self.ev(n.value)

    # ------------------------------------------------------------------ calls
    def e_Call(self, n):
        args = []
        for a in n.args:
            args.append(self.ev(a))
        kw = []
        for k in n.keywords:
            kw.append((k.arg or "**", self.ev(k.value)))
        f = n.func
        recv = None
        fname = None
        target = None
        if isinstance(f, ast.Name):
            if f.id in self.env:
                v = self.env[f.id]
                if v[0] == "closure":
                    fname = v[1]
                    target = self.repo.functions.get(v[1])
                elif v[0] == "lambda":
                    return self.emit_call(n, self.apply(v, args), None, args, kw, None)
                elif v[0] in ("fn", "cls"):
                    fname = v[1]
                    target = self.repo.functions.get(v[1]) or self.repo.classes.get(v[1])
                else:
                    fname = ("dyn", v)
            else:
                d = self.repo.dotted(f, self.func.module)
                if d is not None and (d in self.repo.functions or d in self.repo.classes):
                    fname = d
                    target = self.repo.functions.get(d) or self.repo.classes.get(d)
                elif d is not None:
                    fname = d
                elif f.id in BUILTINS:
                    fname = f.id
                else:
                    q = None
                    p = self.func
                    while p is not None:
                        cand = f"{p.qualname}.<locals>.{f.id}"
                        if cand in self.repo.functions:
                            q = cand
                            break
                        p = p.parent
                    fname = q or f.id
                    target = self.repo.functions.get(q) if q else None
        elif isinstance(f, ast.Attribute):
            base = self.ev(f.value)
            if base[0] == "mod":
                d = self.repo._canon(f"{base[1]}.{f.attr}")
                fname = d
                target = self.repo.functions.get(d) or self.repo.classes.get(d)
            else:
                recv = base
                fname = ("m", f.attr)
                ts = self.repo.resolve_call(n, self.func)
                ts = [t for t in ts if isinstance(t, Func)]
                if len(ts) > 1 and recv[0] == "idx":
                    # the receiver is an element of one of the repo's containers by *value* (a helper that is handed `cells` as a
                    # parameter): the container convention applies to the term the parameter is bound to
                    b = recv[1]
                    nm = b[2] if b[0] == "attr" else b[1] if b[0] == "sym" else None
                    hint = self.repo.CONTAINER_CLASS.get(nm)
                    hc = self.repo.classes.get(hint) if hint else None
                    t = self.repo.method(hc, f.attr) if hc is not None else None
                    if t is not None:
                        ts = [t]
                if len(ts) == 1:
                    target = ts[0]
        else:
            fname = ("dyn", self.ev(f))
        term = self.call_term(n, fname, recv, args, kw, target)
        return self.emit_call(n, term, fname, args, kw, recv, target)

    def emit_call(self, n, term, fname, args, kw, recv, target=None):
        if isinstance(target, Func) and isinstance(term, tuple) and term and term[0] == "call" and term[1] == target.qualname:
            # the event carries the canonical argument list of the call term (keywords that continue the positionals folded in)
            args = term[2][1:] if recv is not None else term[2]
            kw = term[3]
        self.emit("call", n, term=term, fname=fname, args=tuple(args), kw=tuple(kw), recv=recv,
                  target=target.qualname if isinstance(target, (Func, Cls)) else None)
        return term

    def apply(self, lam, args):
        mapping = {p: a for p, a in zip(lam[1], args)}
        return T.substitute(lam[2], mapping)

    def call_term(self, n, fname, recv, args, kw, target):
        # --- option lookups specialised by the configuration
        if isinstance(fname, tuple) and fname[0] == "m" and fname[1] == "get" and recv is not None:
            if recv[0] == "sym" and recv[1].startswith("**") and args and args[0][0] == "str":
                key = args[0][1]
                if key in self.config:
                    return self.config[key]
                default = args[1] if len(args) > 1 else T.NONE
                return ("opt", key, default)
            if args and args[0][0] == "str":
                key = args[0][1]
                ck = f"{T.show(recv)}.{key}"
                if ck in self.config:
                    return self.config[ck]
                return ("opt", ck, args[1] if len(args) > 1 else T.NONE)
        # --- mutating method calls on tracked locals
        if isinstance(fname, tuple) and fname[0] == "m" and recv is not None and isinstance(n.func, ast.Attribute):
            meth = fname[1]
            holder = n.func.value
            if meth in ("append", "add") and len(args) == 1:
                new = ("app", recv, args[0])
                if recv[0] == "seq" and meth == "append":
                    new = T.seq(recv[1] + (args[0],))
                self.set_place(holder, new)
                return T.NONE
            if meth in ("update", "extend") and len(args) == 1 and not kw:
                # s.update(xs) / l.extend(xs): same normal form as the union / concatenation they compute
                self.set_place(holder, ("union" if meth == "update" else "concat", recv, args[0]))
                return T.NONE
            if meth in ("setdefault", "popitem"):
                # the receiver is no longer what it was (its value is not summarised); the call's own value is left to the generic path
                self.set_place(holder, ("mut", meth, recv, tuple(args)))
            if meth in ("update", "extend", "remove", "insert", "clear", "pop", "sort", "reverse", "discard"):
                self.set_place(holder, ("mut", meth, recv, tuple(args)))
                if meth == "pop":
                    if args:
                        # d.pop(k[, default]) removes the entry like `del d[k]` (and hands the value back)
                        self.emit("del", n, base=recv, key=args[0], attr=self._attr_name(holder))
                    return ("call", ("m", "pop"), (recv,) + tuple(args), ())
                return T.NONE
        # --- inlining of small helpers
        if isinstance(target, Func) and self.depth < self.MAX_DEPTH and (target.qualname in self.inline or auto_inline(target)):
            return self.inline_call(n, target, recv, args, kw)
        if isinstance(target, Cls):
            return ("call", "new:" + target.qualname, tuple(args), tuple(sorted(kw)))
        if isinstance(target, Func):
            # keyword arguments that continue the positional ones in parameter order are the same call as the positional spelling
            params = list(target.params)
            if target.cls is not None and not target.is_static and target.parent is None and params:
                params = params[1:]
            args, kwd = list(args), dict(kw)
            if not any(isinstance(a_, tuple) and a_ and a_[0] == "star" for a_ in args) and "**" not in kwd:
                while len(args) < len(params) and params[len(args)] in kwd:
                    args.append(kwd.pop(params[len(args)]))
            a = ((recv,) if recv is not None else ()) + tuple(args)
            return ("call", target.qualname, a, tuple(sorted(kwd.items())))
        return simplify_call(fname, recv, args, kw)

    def set_place(self, holder, new):
        if isinstance(holder, ast.Name) and holder.id in self.alias and self.alias[holder.id][0] == "attr":
            self.heap[self.alias[holder.id]] = new
        elif isinstance(holder, ast.Name):
            self.env[holder.id] = new
        elif isinstance(holder, ast.Attribute):
            self.heap[T.attr(self.ev(holder.value), holder.attr)] = new

    def inline_call(self, n, target, recv, args, kw):
        params = target.params
        bind = {}
        pos = list(args)
        if target.cls is not None and not target.is_static and target.parent is None:
            self_term = recv if recv is not None else T.sym("self")
            params = params[1:]
        else:
            self_term = None
        for p, a in zip(params, pos):
            bind[p] = a
        for k, v in kw:
            if k in params:
                bind[k] = v
        # defaults of parameters not passed
        sub = Eval(self.repo, target, bindings=None, config=self.config, inline=self.inline, depth=self.depth + 1,
                   counter=self.counter, self_term=self_term)
        for p, d in target.defaults().items():
            if p not in bind and p in params:
                bind[p] = sub.ev(d)
        if target.parent is not None and target.parent is self.func:
            captured = dict(self.env)            # a closure sees the enclosing function's locals as they are at the call
            captured.update(sub.env)
            sub.env = captured
            sub.alias = dict(self.alias)
        sub.env.update(bind)
        sub.guard = list(self.guard)
        sub.try_stack = list(self.try_stack)
        # the callee sees (and updates) the caller's view of the heap: `self.x` read in an extracted method is the value the
        # caller stored before the call
        sub.heap = dict(self.heap)
        s = sub.run()
        self.heap = dict(sub.heap)
        self.summary.loop_init.update(s.loop_init)
        # events of the callee become visible in the caller (they carry the caller's guard prefix)
        for e in s.events:
            if e.kind != "return":
                e.inlined_from = getattr(e, "inlined_from", target.qualname)
                self.summary.events.append(e)
        g0 = len(self.guard)
        out = None
        for g, t, _ in reversed(s.returns):
            conds = [c for c in g[g0:] if c[0] not in ("loop", "while", "except", "try")]
            out = t if out is None else T.phi(T.b_and(*conds), t, out)
        return out if out is not None else T.NONE


# private helpers are implementation detail of their callers: a statement extracted into `_helper(...)` must analyse
# like the statement left in place, so calls to them are always expanded (bounded by MAX_DEPTH).  The two entries
# below are the repository's own private methods that the obligations name as units; they stay call atoms.
NO_AUTO_INLINE = {"_build_matrix"}


_KNOWN = None


def known_functions():
    global _KNOWN
    if _KNOWN is None:
        import json
        import os
        p = os.path.join(os.path.dirname(os.path.abspath(__file__)), "known_functions.json")
        try:
            _KNOWN = set(json.load(open(p))["functions"])
        except Exception:
            _KNOWN = set()
    return _KNOWN


def auto_inline(target):
    """private helpers, and functions that did not exist when the obligations were bound (helpers introduced by a later refactoring,
    whatever they are called), are expanded at their call sites"""
    n = target.name
    if n.startswith("__") or n in NO_AUTO_INLINE:
        return False
    if n.startswith("_"):
        return True
    k = known_functions()
    # a function defined inside another one that did not exist at binding time is a local helper too (its free variables are the
    # enclosing function's locals at the call)
    return bool(k) and target.qualname not in k


# ---------------------------------------------------------------------- term builders
def mk_fstr(parts):
    """formatted string: nested pieces flattened, adjacent literals merged, empty literals dropped"""
    flat = []
    for p_ in parts:
        for q in (p_[1] if p_[0] == "fstr" else (p_,)):
            if q[0] == "str" and q[1] == "":
                continue
            if q[0] == "str" and flat and flat[-1][0] == "str":
                flat[-1] = ("str", flat[-1][1] + q[1])
            else:
                flat.append(q)
    return ("fstr", tuple(flat))


def parse_format(template, args, kw):
    """'{:0{w}d}{}'.format(a, w=.., b)  ->  the same ('fstr', ...) term the f-string spelling gives; None when a field is not understood"""
    import string
    auto = [0]
    kwd = dict(kw)

    def field_value(name):
        if name == "":
            i = auto[0]
            auto[0] += 1
        elif name.isdigit():
            i = int(name)
        else:
            if name in kwd:
                return kwd[name]
            return None
        return args[i] if i < len(args) else None

    def go(tpl):
        parts = []
        for lit, name, spec, conv in string.Formatter().parse(tpl):
            if lit:
                parts.append(("str", lit))
            if name is None:
                continue
            if any(c in name for c in ".["):
                return None
            v = field_value(name)
            if v is None:
                return None
            sp = T.NONE
            if spec:
                inner = go(spec)
                if inner is None:
                    return None
                sp = mk_fstr(tuple(inner))
            parts.append(("fmt", v, sp, ord(conv) if conv else -1))
        return parts
    parts = go(template)
    return mk_fstr(tuple(parts)) if parts is not None else None


TERM_FIELDS = ("value", "old", "key", "base", "target", "recv", "term", "test", "exc")


def rewrite_event(e, f):
    """apply the term rewriting f to every term an event carries (guards included)"""
    for k in TERM_FIELDS:
        v = e.__dict__.get(k)
        if isinstance(v, tuple):
            e.__dict__[k] = f(v)
    if "args" in e.__dict__:
        e.args = tuple(f(a) for a in e.args)
    if "kw" in e.__dict__:
        e.kw = tuple((k, f(v)) for k, v in e.kw)
    if isinstance(e.__dict__.get("fname"), tuple) and e.fname[0] == "dyn":
        e.fname = ("dyn", f(e.fname[1]))
    e.guard = rewrite_guard(e.guard, f)


def rewrite_guard(guard, f):
    out = []
    for g in guard:
        if g[0] in ("loop", "while"):
            out.append((g[0], g[1], f(g[2])))
        elif g[0] in ("except", "try"):
            out.append(g)
        else:
            out.append(f(g))
    return tuple(out)


def canon_loop(bv, it, terms, mutated=()):
    """One canonical spelling per iteration idiom, decided from what the body actually uses (terms = every term the body
    produced).  -> (iterator, mappings, conds): the mappings are applied in order (T.substitute, each one simultaneous) to
    all body terms; conds are conditions every iteration of the body is additionally guarded by (filters of a fused
    comprehension).
        for y in [g(x) for x in Z if p(x)]               ->  for x in Z if p(x), y = g(x)
        enumerate([g(x) for x in Z]), zip of images of Z ->  the same over Z
        enumerate(X), index unused                       ->  X,            element = bv
        range(len(X)) with X[i]                          ->  enumerate(X), i = bv[0], X[i] = bv[1]   (X if only X[i] is used)
        enumerate(X), element unused                     ->  range(len(X))
        D.items(), key unused / value unused              ->  D.values() / D
        D or D.keys() with D[k]                          ->  D.items(), k = bv[0], D[k] = bv[1]       (D.values() if only D[k] is used)
        M[i] with M = [f(x) for x in X] while enumerating X  ->  f(element)
    """
    terms = list(terms)
    mappings, conds = [], []
    for _ in range(8):
        it2, mapping, cond = _canon_step(bv, it, terms)
        if it2 != it and mutated and (it[0] == "map" or (it[0] == "call" and it[1] in ("enumerate", "zip") and any(a[0] == "map" for a in it[2]))) \
                and any(T.contains(it, m) or T.contains(m, it) for m in mutated):
            # the loop runs over a snapshot (a materialised comprehension) of something its body changes: not the same as
            # running over the source itself, so the comprehension is left in place
            break
        if not mapping and it2 == it and cond is None:
            break
        if mapping:
            mappings.append(mapping)
            terms = [T.substitute(t, mapping) for t in terms]
        if cond is not None:
            conds.append(cond)
            terms.append(cond)
        it = it2
    return it, mappings, conds


def apply_mappings(t, mappings):
    for m in mappings:
        t = T.substitute(t, m)
    return t


def _canon_step(bv, it, terms):
    P0, P1 = T.idx(bv, T.num(0)), T.idx(bv, T.num(1))

    def used(x, mapping=None):
        for t in terms:
            t2 = T.substitute(t, mapping) if mapping else t
            if T.contains(t2, x):
                return True
        return False

    def is_call(t, name, n=1):
        return t[0] == "call" and t[1] == name and len(t[2]) == n

    def image(m):
        """m as an element-wise image of a root sequence: (root, element as a function of ('sym','$z')) - None for filtered maps"""
        if m[0] == "map":
            if m[4] != T.TRUE:
                return None
            return m[3], T.substitute(m[1], {m[2]: ("sym", "$z")})
        return m, ("sym", "$z")

    Z = ("sym", "$z")
    if is_call(it, ("m", "keys")):
        return it[2][0], {}, None
    if is_call(it, "range", 2) and it[2][0] == T.num(0):
        return ("call", "range", (it[2][1],), ()), {}, None
    # range(a, b) with a constant start is range(b - a) shifted: `for i in range(1, n): f(x[i-1], x[i])` == `for i in range(n-1): f(x[i], x[i+1])`
    if is_call(it, "range", 2) and it[2][0][0] == "num" and it[2][0][1].denominator == 1:
        return ("call", "range", (T.sub(it[2][1], it[2][0]),), ()), {bv: T.add(bv, it[2][0])}, None
    # consecutive pairs: zip(X, X[1:]) / zip(X[:-1], X[1:])
    if is_call(it, "zip", 2):
        A, B = it[2]
        tail = ("slice", T.num(1), T.NONE, T.NONE)
        head = ("slice", T.NONE, T.num(-1), T.NONE)
        if B[0] == "idx" and B[2] == tail and (A == B[1] or (A[0] == "idx" and A[2] == head and A[1] == B[1])):
            X0 = B[1]
            n1 = T.sub(("call", "len", (X0,), ()), T.num(1))
            return ("call", "range", (n1,), ()), {P0: T.idx(X0, bv), P1: T.idx(X0, T.add(bv, T.num(1)))}, None
    # ---- iterating a comprehension is iterating its source
    if it[0] == "map":
        e2, b2, it2, c2 = it[1:]
        m = {bv: T.substitute(e2, {b2: bv})}
        c = T.substitute(c2, {b2: bv})
        return it2, m, (c if c != T.TRUE else None)
    if is_call(it, "enumerate") and it[2][0][0] == "map" and it[2][0][4] == T.TRUE:
        e2, b2, it2, _ = it[2][0][1:]
        return ("call", "enumerate", (it2,), ()), {P1: T.substitute(e2, {b2: P1})}, None
    if is_call(it, "zip", 2):
        ia, ib = image(it[2][0]), image(it[2][1])
        if ia is not None and ib is not None and ia[0] == ib[0] and (ia[1] != Z or ib[1] != Z or True) and \
                (it[2][0][0] == "map" or it[2][1][0] == "map" or it[2][0] == it[2][1]):
            return ia[0], {P0: T.substitute(ia[1], {Z: bv}), P1: T.substitute(ib[1], {Z: bv})}, None
        return it, {}, None
    # ---- positions: enumerate(X) and range(len(X))
    X = None
    if is_call(it, "enumerate"):
        X, pos, elem = it[2][0], P0, P1
    elif is_call(it, "range") and is_call(it[2][0], "len"):
        X, pos, elem = it[2][0][2][0], bv, T.idx(it[2][0][2][0], bv)
    if X is not None:
        # images of X indexed by the position are images of the element
        folds = {}
        for t in terms:
            for x in T.subterms(t):
                if x[0] == "idx" and x[2] == pos and x[1][0] == "map" and x[1][3] == X and x[1][4] == T.TRUE:
                    folds[x] = T.substitute(x[1][1], {x[1][2]: elem})
                elif x[0] == "idx" and x[2] == pos and x[1] == X and x != elem:
                    folds[x] = elem
        TMP = ("sym", "$elem")
        probe = {k: T.substitute(v, {elem: TMP}) for k, v in folds.items()}
        probe[elem] = TMP
        if not used(pos, probe):
            # the position is never needed: plain iteration over X
            mapping = {k: T.substitute(T.substitute(v, {elem: TMP}), {TMP: bv}) for k, v in folds.items()}
            mapping[elem] = bv
            return X, mapping, None
        if not folds and not used(elem):
            # only the position is needed: range(len(X))
            return ("call", "range", (("call", "len", (X,), ()),), ()), ({pos: bv} if pos != bv else {}), None
        mapping = {k: T.substitute(T.substitute(v, {elem: TMP}), {TMP: P1}) for k, v in folds.items()}
        if pos != P0:
            mapping[elem] = P1
            mapping[pos] = P0
        return ("call", "enumerate", (X,), ()), mapping, None
    # ---- mappings: items(), and keys with look-ups
    if is_call(it, ("m", "items")):
        D = it[2][0]
        # D[k] while walking D.items() is the value of the pair
        if used(T.idx(D, P0)):
            return it, {T.idx(D, P0): P1}, None
        if not used(P0):
            return ("call", ("m", "values"), (D,), ()), {P1: bv}, None
        if not used(P1):
            return D, {P0: bv}, None
        return it, {}, None
    D = it
    look = T.idx(D, bv)
    if D[0] not in ("seq", "arr", "map", "concat") and not is_call(D, ("m", "values")) and used(look):
        TMP = ("sym", "$elem")
        if not used(bv, {look: TMP}):
            return ("call", ("m", "values"), (D,), ()), {look: bv}, None
        return ("call", ("m", "items"), (D,), ()), {look: P1, bv: P0}, None
    return it, {}, None


def mk_map(elt, bv, it, cond=T.TRUE):
    """[elt for bv in it if cond], with iterator idioms normalised"""
    # a comprehension over a comprehension is one comprehension: [f(y) for y in [g(x) for x in xs if p(x)] if q(y)]
    it_c, mappings, conds = canon_loop(bv, it, [elt, cond])
    if mappings or it_c != it or conds:
        elt, cond = apply_mappings(elt, mappings), T.b_and(*(conds + [apply_mappings(cond, mappings)]))
        it = it_c
    # for i, e in enumerate(xs) where the index is unused  ==  for e in xs
    if it[0] == "call" and it[1] == "enumerate" and len(it[2]) == 1:
        i0 = T.idx(bv, T.num(0))
        if not T.contains(elt, i0) and not T.contains(cond, i0):
            e1 = T.idx(bv, T.num(1))
            elt = T.substitute(elt, {e1: bv})
            cond = T.substitute(cond, {e1: bv})
            it = it[2][0]
    # for k, v in d.items() where the key is unused == for v in d.values()
    if it[0] == "call" and it[1] == ("m", "items") and len(it[2]) == 1:
        k0, v0 = T.idx(bv, T.num(0)), T.idx(bv, T.num(1))
        if not T.contains(elt, k0) and not T.contains(cond, k0):
            elt = T.substitute(elt, {v0: bv})
            cond = T.substitute(cond, {v0: bv})
            it = ("call", ("m", "values"), it[2], ())
        elif not T.contains(elt, v0) and not T.contains(cond, v0):
            elt = T.substitute(elt, {k0: bv})
            cond = T.substitute(cond, {k0: bv})
            it = it[2][0]
    if it[0] == "call" and it[1] == ("m", "keys") and len(it[2]) == 1:
        it = it[2][0]
    if elt == bv and cond == T.TRUE:
        return it
    return ("map", elt, bv, it, cond)


# one name per mathematical function / constant, whichever library spells it (scalars only differ in the return container)
MOD_SYNONYMS = {"math.pi": "numpy.pi", "math.e": "numpy.e", "math.inf": "numpy.inf", "math.nan": "numpy.nan", "numpy.Inf": "numpy.inf", "numpy.NaN": "numpy.nan"}
CALL_SYNONYMS = {"math.acos": "numpy.arccos", "math.asin": "numpy.arcsin", "math.atan": "numpy.arctan", "math.atan2": "numpy.arctan2",
                 "math.cos": "numpy.cos", "math.sin": "numpy.sin", "math.tan": "numpy.tan", "math.exp": "numpy.exp", "math.log": "numpy.log",
                 "math.degrees": "numpy.degrees", "math.radians": "numpy.radians", "numpy.rad2deg": "numpy.degrees", "numpy.deg2rad": "numpy.radians",
                 "math.isclose": "numpy.isclose", "math.isnan": "numpy.isnan", "numpy.asanyarray": "numpy.asarray", "math.dist": "math.dist",
                 "numpy.row_stack": "numpy.vstack"}


def simplify_call(fname, recv, args, kw):
    args = tuple(args)
    kw = tuple(sorted(kw))
    if isinstance(fname, str) and fname in CALL_SYNONYMS:
        fname = CALL_SYNONYMS[fname]
    if isinstance(fname, tuple) and fname[0] == "m":
        meth = fname[1]
        if meth == "format" and recv is not None and recv[0] == "str" and not any(a[0] == "star" for a in args):
            r = parse_format(recv[1], args, kw)
            if r is not None:
                return r
        if meth == "zfill" and len(args) == 1 and recv is not None and recv[0] == "call" and recv[1] == "str" and len(recv[2]) == 1:
            # str(i).zfill(w) == f"{i:0{w}d}" for integers (the sign is kept in front by both)
            return mk_fstr((("fmt", recv[2][0], mk_fstr((("str", "0"), ("fmt", args[0], T.NONE, -1), ("str", "d"))), -1),))
        if meth == "round":
            return ("call", "round", (recv,) + args, kw)
        if meth in ("sum", "mean", "max", "min", "median") and not args and not kw:
            return simplify_call(meth, None, (recv,), ())
        if meth in ("flatten", "tolist", "squeeze") and not args:
            return ("call", ("m", meth), (recv,), kw)
        if meth == "astype":
            return ("call", "astype", (recv,) + args, kw)
        return ("call", fname, (recv,) + args, kw)
    if not isinstance(fname, str):
        return ("call", fname, args, kw)
    if fname in ROUND_NAMES:
        return ("call", "round", args, kw)
    # ---- canonical names for reductions: np.sum(x) / sum(x) / x.sum()  ->  sum(x), likewise mean / max / min / median
    RED = {"numpy.sum": "sum", "numpy.mean": "mean", "numpy.average": "mean", "numpy.max": "max", "numpy.amax": "max", "numpy.min": "min",
           "numpy.amin": "min", "numpy.median": "median", "statistics.mean": "mean", "statistics.median": "median"}
    if fname in RED and len(args) == 1 and not kw:
        fname = RED[fname]
    # ---- elementwise ufuncs spelled as functions
    if fname in ("numpy.subtract", "numpy.add", "numpy.multiply", "numpy.divide", "numpy.true_divide", "numpy.negative", "numpy.square",
                 "numpy.power", "numpy.hypot", "numpy.sqrt", "numpy.abs", "numpy.absolute"):
        # a numpy ufunc converts list arguments to arrays itself: np.subtract([a, b], [c, d]) is element-wise
        args = tuple(T.arr(a[1]) if a[0] == "seq" and not any(x[0] == "star" for x in a[1]) else a for a in args)
    if kw and fname in ("numpy.subtract", "numpy.add", "numpy.multiply", "numpy.divide", "numpy.true_divide", "numpy.negative", "numpy.square",
                        "numpy.power", "numpy.hypot", "numpy.sqrt"):
        # `where=` / `out=` make the ufunc a different function (masked evaluation): it is not the plain arithmetic operation
        return ("call", fname, args, kw)
    if fname in ("numpy.hypot", "math.hypot") and len(args) == 2:
        return T.sqrt(T.add(T.mul(args[0], args[0]), T.mul(args[1], args[1])))
    if fname == "numpy.square" and len(args) == 1:
        return T.mul(args[0], args[0])
    if fname in ("numpy.power", "pow", "math.pow") and len(args) == 2 and args[1][0] == "num":
        return T.power(args[0], args[1][1])
    if fname in ("numpy.subtract", "operator.sub") and len(args) == 2:
        return T.sub(args[0], args[1])
    if fname in ("numpy.add", "operator.add") and len(args) == 2:
        return T.add(args[0], args[1])
    if fname in ("numpy.multiply", "operator.mul") and len(args) == 2:
        return T.mul(args[0], args[1])
    if fname in ("numpy.divide", "numpy.true_divide", "operator.truediv") and len(args) == 2:
        return T.div(args[0], args[1])
    if fname in ("numpy.negative", "operator.neg") and len(args) == 1:
        return T.neg(args[0])
    if fname == "bool" and len(args) == 1 and args[0][0] in ("and", "or", "not", "exists", "forall", "ige", "cmp", "in", "bool"):
        return args[0]
    if fname in ("max", "min") and len(args) == 1 and dict(kw).keys() == {"default"}:
        # max(xs, default=d) is max(xs) for a non-empty xs and d otherwise
        return T.phi(T.ige(simplify_call("len", None, (args[0],), ()), 1), simplify_call(fname, None, args, ()), dict(kw)["default"])
    if fname in ("list", "tuple") and len(args) == 1:
        a = args[0]
        if a[0] in ("seq", "map", "concat", "flatmap"):
            return a
        if a[0] == "call" and a[1] == "map":
            return a
        return ("call", "list", args, kw)
    if fname in ("list",) and not args:
        return T.seq(())
    if fname == "len" and len(args) == 1:
        a = args[0]
        if a[0] == "call" and a[1] in (("m", "keys"), ("m", "values"), ("m", "items")) and len(a[2]) == 1:
            return simplify_call("len", None, (a[2][0],), ())        # a mapping and its views have the same length
        if a[0] in ("seq", "arr"):
            return T.num(len(a[1]))
        if a[0] == "map" and a[4] == T.TRUE:
            return ("call", "len", (a[3],), ())
    if fname == "map" and len(args) == 2 and args[0][0] in ("mod", "fn") and isinstance(args[0][1], str):
        # map(f, xs) with a named function is [f(x) for x in xs]
        b_ = ("bv", "map%d" % (abs(hash(args)) % 10 ** 9))
        return mk_map(simplify_call(args[0][1], None, (b_,), ()), b_, args[1])
    if fname == "map" and len(args) == 2 and args[0][0] == "lambda" and len(args[0][1]) == 1:
        lam = args[0]
        return mk_map(lam[2], lam[1][0], args[1])
    if fname == "filter" and len(args) == 2 and args[0][0] == "lambda" and len(args[0][1]) == 1:
        lam = args[0]
        return ("map", lam[1][0], lam[1][0], args[1], lam[2])
    if fname in ("numpy.array", "numpy.asarray") and len(args) >= 1 and args[0][0] == "seq" and not any(x[0] in ("star",) for x in args[0][1]):
        return T.arr(args[0][1])
    if fname in ("numpy.array", "numpy.asarray") and len(args) == 1 and not kw and args[0][0] not in ("seq", "dict"):
        # conversion of an existing sequence / array to an array is the identity on its values (terms do not distinguish the two:
        # arithmetic on atoms is element-wise already)
        return args[0]
    if fname in ("numpy.sqrt", "math.sqrt") and len(args) == 1:
        return T.sqrt(args[0])
    if fname in ("numpy.abs", "numpy.absolute", "abs", "math.fabs") and len(args) == 1:
        return ("call", "abs", args, ())
    if fname in ("numpy.any", "any") and len(args) == 1:
        a = args[0]
        if a[0] == "map":
            return ("exists", T.b_and(a[4], a[1]), a[2], a[3])
    if fname in ("numpy.all", "all") and len(args) == 1:
        a = args[0]
        if a[0] == "map":
            return ("forall", T.b_or(T.b_not(a[4]), a[1]), a[2], a[3])
    if fname == "sum" and len(args) == 1 and args[0][0] in ("arr", "seq"):
        out = T.ZERO
        for x in args[0][1]:
            out = T.add(out, x)
        return out
    if fname == "numpy.dot" and len(args) == 2 and args[0][0] in ("arr", "seq") and args[1][0] in ("arr", "seq") \
            and len(args[0][1]) == len(args[1][1]):
        out = T.ZERO
        for x, y in zip(args[0][1], args[1][1]):
            out = T.add(out, T.mul(x, y))
        return out
    if fname == "numpy.linalg.norm" and len(args) == 1 and args[0][0] in ("arr", "seq") and not kw:
        out = T.ZERO
        for x in args[0][1]:
            out = T.add(out, T.mul(x, x))
        return T.sqrt(out)
    return ("call", fname, args, kw)


# ---------------------------------------------------------------------- front door
_cache = {}


def new_param_bindings(repo, f):
    """An optional parameter that the function did not have when the obligations were bound, whose default is a constant and that no
    call site of the package passes (by position, by keyword or through **), is evaluated at its default: that is what every user of
    the unchanged API gets.  -> {name: term}"""
    memo = repo.__dict__.setdefault("_new_param_bindings", {})
    if f.qualname in memo:
        return memo[f.qualname]
    out = {}
    base = known_params().get(f.qualname)
    if base is not None:
        a = f.node.args
        pos = [x.arg for x in a.posonlyargs + a.args]
        offset = 1 if (f.cls is not None and not f.is_static and pos and pos[0] in ("self", "cls")) else 0
        for name, d in f.defaults().items():
            if name in base:
                continue
            v = d.operand if isinstance(d, ast.UnaryOp) and isinstance(d.op, ast.USub) else d
            if not (isinstance(v, ast.Constant) and (v.value is None or isinstance(v.value, (int, float, str, bool)))):
                continue
            passed = False
            for caller, c in repo.call_sites(f.qualname):
                if any(k.arg == name or k.arg is None for k in c.keywords) or any(isinstance(x, ast.Starred) for x in c.args):
                    passed = True
                if name in pos and len(c.args) > pos.index(name) - (offset if isinstance(c.func, ast.Attribute) else 0):
                    passed = True
            if not passed:
                out[name] = Eval(repo, f).ev(d)
    memo[f.qualname] = out
    return out


_KP = None


def known_params():
    global _KP
    if _KP is None:
        import json
        import os
        p = os.path.join(os.path.dirname(os.path.abspath(__file__)), "known_functions.json")
        _KP = json.load(open(p)).get("params", {}) if os.path.exists(p) else {}
    return _KP


def summarize(repo, qualname, config=None, inline=(), bindings=None, heap=None, abstract=()):
    auto = new_param_bindings(repo, repo.func(qualname))
    if auto:
        bindings = {**auto, **(bindings or {})}
    key = (id(repo), qualname, tuple(sorted((config or {}).items())), tuple(sorted(inline)),
           tuple(sorted((bindings or {}).items())), tuple(sorted((heap or {}).items(), key=repr)), tuple(sorted(abstract)))
    if key not in _cache:
        f = repo.func(qualname)
        _cache[key] = Eval(repo, f, bindings=bindings, config=config, inline=inline, heap=heap, abstract=abstract).run()
    return _cache[key]


def spec_term(repo, module_name, expr, env=None):
    """normalise a statement-side formula written as a Python expression"""
    mod = repo.modules[module_name]
    fake = ast.parse("def __spec__():\n    pass\n").body[0]
    f = Func(f"{module_name}.__spec__", fake, mod)
    e = Eval(repo, f)
    e.env.update(env or {})
    return e.ev(ast.parse(expr, mode="eval").body)

"""Mechanical behaviour-preserving rewrites of a whole module (ast -> ast), used by the thorough tier as
false-alarm probes: each one is applied to every site of a module at once, the module is re-parsed and analysed
(never executed), and the verdict must not move.  Each rewrite is semantics preserving for all inputs under the
stated side condition, which is checked syntactically before a site is rewritten."""
import ast
import copy


def _names(node):
    return {n.id for n in ast.walk(node) if isinstance(n, ast.Name)}


def _fresh(prefix, counter):
    counter[0] += 1
    return f"{prefix}{counter[0]}"


def _walk_bodies(tree):
    """yield every statement list (function bodies, loop bodies, branches) - nested functions included"""
    for n in ast.walk(tree):
        for field in ("body", "orelse", "finalbody"):
            b = getattr(n, field, None)
            if isinstance(b, list) and b and isinstance(b[0], ast.stmt):
                yield n, field, b
        if isinstance(n, ast.Try):
            for h in n.handlers:
                yield h, "body", h.body


def comp_to_loop(tree):
    """x = [elt for t in it if c]  ->  x = []; for t' in it: if c': x.append(elt')   (single generator; x not read by the
    comprehension; the loop variable gets a fresh name so that nothing leaks into the function scope)"""
    tree = copy.deepcopy(tree)
    counter = [0]
    for owner, field, body in list(_walk_bodies(tree)):
        if isinstance(owner, (ast.Module, ast.ClassDef)):
            continue
        out = []
        for st in body:
            if isinstance(st, ast.Assign) and len(st.targets) == 1 and isinstance(st.targets[0], ast.Name) and isinstance(st.value, ast.ListComp) \
                    and len(st.value.generators) == 1 and not st.value.generators[0].is_async and st.targets[0].id not in _names(st.value):
                x = st.targets[0].id
                g = st.value.generators[0]
                tnames = {n.id for n in ast.walk(g.target) if isinstance(n, ast.Name)}
                ren = {t: _fresh(f"_{t}_cv", counter) for t in tnames}

                class R(ast.NodeTransformer):
                    def visit_Name(self, n):
                        if n.id in ren:
                            return ast.copy_location(ast.Name(id=ren[n.id], ctx=n.ctx), n)
                        return n

                    def visit_Lambda(self, n):
                        return n if ({a.arg for a in n.args.args} & set(ren)) else self.generic_visit(n)
                # nested comprehensions that rebind one of the names are left alone (would need scope analysis)
                if any(isinstance(n, (ast.ListComp, ast.SetComp, ast.DictComp, ast.GeneratorExp)) and
                       ({m.id for gg in n.generators for m in ast.walk(gg.target) if isinstance(m, ast.Name)} & tnames)
                       for n in ast.walk(st.value.elt)):
                    out.append(st)
                    continue
                tgt, elt, ifs = R().visit(copy.deepcopy(g.target)), R().visit(copy.deepcopy(st.value.elt)), [R().visit(copy.deepcopy(c)) for c in g.ifs]
                app = ast.Expr(value=ast.Call(func=ast.Attribute(value=ast.Name(id=x, ctx=ast.Load()), attr="append", ctx=ast.Load()), args=[elt], keywords=[]))
                inner = [app]
                if ifs:
                    inner = [ast.If(test=ifs[0] if len(ifs) == 1 else ast.BoolOp(op=ast.And(), values=ifs), body=[app], orelse=[])]
                out.append(ast.Assign(targets=[ast.Name(id=x, ctx=ast.Store())], value=ast.List(elts=[], ctx=ast.Load())))
                out.append(ast.For(target=tgt, iter=g.iter, body=inner, orelse=[]))
            else:
                out.append(st)
        setattr(owner, field, out)
    ast.fix_missing_locations(tree)
    return tree


def cond_to_temp(tree):
    """if c: ...  ->  _c = c; if _c: ...   (same evaluation, once, at the same point; `elif` chains become nested else blocks)"""
    tree = copy.deepcopy(tree)
    counter = [0]

    class Tr(ast.NodeTransformer):
        def visit_If(self, node):
            self.generic_visit(node)
            nm = _fresh("_cond", counter)
            a = ast.Assign(targets=[ast.Name(id=nm, ctx=ast.Store())], value=node.test)
            node.test = ast.Name(id=nm, ctx=ast.Load())
            return [a, node]
    out = Tr().visit(tree)
    ast.fix_missing_locations(out)
    return out


def items_to_keys(tree):
    """for k, v in D.items(): B  ->  for k in D.keys(): v = D[k]; B      (D a name or attribute path)"""
    tree = copy.deepcopy(tree)
    for n in ast.walk(tree):
        if isinstance(n, ast.For) and isinstance(n.target, ast.Tuple) and len(n.target.elts) == 2 and all(isinstance(e, ast.Name) for e in n.target.elts) \
                and isinstance(n.iter, ast.Call) and isinstance(n.iter.func, ast.Attribute) and n.iter.func.attr == "items" and not n.iter.args \
                and _pure_path(n.iter.func.value):
            k, v = n.target.elts
            D = n.iter.func.value
            n.iter = ast.Call(func=ast.Attribute(value=copy.deepcopy(D), attr="keys", ctx=ast.Load()), args=[], keywords=[])
            n.target = ast.Name(id=k.id, ctx=ast.Store())
            n.body = [ast.Assign(targets=[ast.Name(id=v.id, ctx=ast.Store())],
                                 value=ast.Subscript(value=copy.deepcopy(D), slice=ast.Name(id=k.id, ctx=ast.Load()), ctx=ast.Load()))] + n.body
    ast.fix_missing_locations(tree)
    return tree


def _pure_path(n):
    while isinstance(n, ast.Attribute):
        n = n.value
    return isinstance(n, ast.Name)


def enumerate_to_range(tree):
    """for i, e in enumerate(X): B  ->  for i in range(len(X)): e = X[i]; B     (X a name or attribute path)"""
    tree = copy.deepcopy(tree)
    for n in ast.walk(tree):
        if isinstance(n, ast.For) and isinstance(n.target, ast.Tuple) and len(n.target.elts) == 2 and all(isinstance(e, ast.Name) for e in n.target.elts) \
                and isinstance(n.iter, ast.Call) and isinstance(n.iter.func, ast.Name) and n.iter.func.id == "enumerate" and len(n.iter.args) == 1 \
                and not n.iter.keywords and _pure_path(n.iter.args[0]):
            i, e = n.target.elts
            X = n.iter.args[0]
            n.iter = ast.Call(func=ast.Name(id="range", ctx=ast.Load()),
                              args=[ast.Call(func=ast.Name(id="len", ctx=ast.Load()), args=[copy.deepcopy(X)], keywords=[])], keywords=[])
            n.target = ast.Name(id=i.id, ctx=ast.Store())
            n.body = [ast.Assign(targets=[ast.Name(id=e.id, ctx=ast.Store())],
                                 value=ast.Subscript(value=copy.deepcopy(X), slice=ast.Name(id=i.id, ctx=ast.Load()), ctx=ast.Load()))] + n.body
    ast.fix_missing_locations(tree)
    return tree


def guard_clauses(tree):
    """for ...: if c: B   ->   for ...: if not c: continue; B      (the `if` is the whole loop body and has no else)"""
    tree = copy.deepcopy(tree)
    for n in ast.walk(tree):
        if isinstance(n, ast.For) and len(n.body) == 1 and isinstance(n.body[0], ast.If) and not n.body[0].orelse:
            i = n.body[0]
            n.body = [ast.If(test=ast.UnaryOp(op=ast.Not(), operand=i.test), body=[ast.Continue()], orelse=[])] + i.body
    ast.fix_missing_locations(tree)
    return tree


def de_morgan(tree):
    """if a and b: ...  ->  if not (not a or not b): ...     (same short-circuit order, same truth value)"""
    tree = copy.deepcopy(tree)
    for n in ast.walk(tree):
        if isinstance(n, ast.If) and isinstance(n.test, ast.BoolOp):
            op = ast.Or() if isinstance(n.test.op, ast.And) else ast.And()
            n.test = ast.UnaryOp(op=ast.Not(), operand=ast.BoolOp(op=op, values=[ast.UnaryOp(op=ast.Not(), operand=v) for v in n.test.values]))
    ast.fix_missing_locations(tree)
    return tree


def _local_stores(fn):
    """names bound in the function's own scope (not inside comprehensions, lambdas or nested defs)"""
    out = {a.arg for a in fn.args.posonlyargs + fn.args.args + fn.args.kwonlyargs}
    if fn.args.vararg:
        out.add(fn.args.vararg.arg)
    if fn.args.kwarg:
        out.add(fn.args.kwarg.arg)
    todo = list(fn.body)
    while todo:
        n = todo.pop()
        if isinstance(n, (ast.FunctionDef, ast.AsyncFunctionDef, ast.ClassDef, ast.Lambda, ast.ListComp, ast.SetComp, ast.DictComp, ast.GeneratorExp)):
            if isinstance(n, (ast.FunctionDef, ast.AsyncFunctionDef, ast.ClassDef)):
                out.add(n.name)
            continue
        if isinstance(n, ast.Name) and isinstance(n.ctx, (ast.Store, ast.Del)):
            out.add(n.id)
        if isinstance(n, ast.ExceptHandler) and n.name:
            out.add(n.name)
        if isinstance(n, (ast.Import, ast.ImportFrom)):
            for a in n.names:
                out.add((a.asname or a.name).split(".")[0])
        todo.extend(ast.iter_child_nodes(n))
    return out


def extract_returns(tree):
    """return <expr>  ->  return _xh_N(<locals used by expr>), with `def _xh_N(...): return <expr>` added at module level
    (top-level functions and methods only; expressions with yield / await / walrus / super() / lambdas capturing locals are left alone)"""
    tree = copy.deepcopy(tree)
    counter = [0]
    new_defs = []
    fns = []
    for n in tree.body:
        if isinstance(n, ast.FunctionDef):
            fns.append(n)
        elif isinstance(n, ast.ClassDef):
            fns.extend(m for m in n.body if isinstance(m, ast.FunctionDef))
    for fn in fns:
        if any(isinstance(x, (ast.Yield, ast.YieldFrom, ast.Global, ast.Nonlocal)) for x in ast.walk(fn)):
            continue
        local = _local_stores(fn)
        # returns of this function itself (not of nested defs)
        todo = list(fn.body)
        rets = []
        while todo:
            n = todo.pop()
            if isinstance(n, (ast.FunctionDef, ast.AsyncFunctionDef, ast.ClassDef, ast.Lambda)):
                continue
            if isinstance(n, ast.Return) and n.value is not None:
                rets.append(n)
            todo.extend(ast.iter_child_nodes(n))
        for r in rets:
            v = r.value
            if isinstance(v, (ast.Name, ast.Constant)) or (isinstance(v, ast.Tuple) and all(isinstance(e, (ast.Name, ast.Constant)) for e in v.elts)):
                continue
            if any(isinstance(x, (ast.Await, ast.NamedExpr, ast.Lambda, ast.Yield, ast.Starred)) for x in ast.walk(v)):
                continue
            if any(isinstance(x, ast.Name) and x.id in ("super", "locals", "vars") for x in ast.walk(v)):
                continue
            used = sorted({x.id for x in ast.walk(v) if isinstance(x, ast.Name) and isinstance(x.ctx, ast.Load) and x.id in local})
            nm = _fresh("_xh_" if counter[0] % 2 == 0 else "extracted_helper_", counter)     # private and public names alternate
            new_defs.append(ast.FunctionDef(name=nm, args=ast.arguments(posonlyargs=[], args=[ast.arg(arg=u) for u in used], vararg=None, kwonlyargs=[],
                                                                      kw_defaults=[], kwarg=None, defaults=[]),
                                            body=[ast.Return(value=v)], decorator_list=[], returns=None, type_comment=None, type_params=[]))
            r.value = ast.Call(func=ast.Name(id=nm, ctx=ast.Load()), args=[ast.Name(id=u, ctx=ast.Load()) for u in used], keywords=[])
    tree.body.extend(new_defs)
    ast.fix_missing_locations(tree)
    return tree


def loop_to_comp(tree):
    """x = []; for t in it: [if c:] x.append(e)   ->   x = [e for t in it [if c]]    (x not used in it / c / e; no else / break)"""
    tree = copy.deepcopy(tree)
    for owner, field, body in list(_walk_bodies(tree)):
        if isinstance(owner, (ast.Module, ast.ClassDef)):
            continue
        out = []
        i = 0
        while i < len(body):
            st = body[i]
            nxt = body[i + 1] if i + 1 < len(body) else None
            done = False
            if isinstance(st, ast.Assign) and len(st.targets) == 1 and isinstance(st.targets[0], ast.Name) and isinstance(st.value, ast.List) and not st.value.elts \
                    and isinstance(nxt, ast.For) and not nxt.orelse and len(nxt.body) == 1:
                x = st.targets[0].id
                inner = nxt.body[0]
                cond = None
                if isinstance(inner, ast.If) and not inner.orelse and len(inner.body) == 1:
                    cond, inner = inner.test, inner.body[0]
                if isinstance(inner, ast.Expr) and isinstance(inner.value, ast.Call) and isinstance(inner.value.func, ast.Attribute) and inner.value.func.attr == "append" \
                        and isinstance(inner.value.func.value, ast.Name) and inner.value.func.value.id == x and len(inner.value.args) == 1 and not inner.value.keywords:
                    elt = inner.value.args[0]
                    tnames = {n.id for n in ast.walk(nxt.target) if isinstance(n, ast.Name)}
                    later = {n.id for s_ in body[i + 2:] for n in ast.walk(s_) if isinstance(n, ast.Name)}
                    parts = [elt, nxt.iter] + ([cond] if cond is not None else [])
                    if x not in set().union(*[_names(p_) for p_ in parts]) and not (tnames & later) \
                            and not any(isinstance(n, (ast.Await, ast.Yield, ast.NamedExpr)) for p_ in parts for n in ast.walk(p_)):
                        comp = ast.ListComp(elt=elt, generators=[ast.comprehension(target=nxt.target, iter=nxt.iter, ifs=[cond] if cond is not None else [], is_async=0)])
                        out.append(ast.Assign(targets=[ast.Name(id=x, ctx=ast.Store())], value=comp))
                        i += 2
                        done = True
            if not done:
                out.append(st)
                i += 1
        setattr(owner, field, out)
    ast.fix_missing_locations(tree)
    return tree


def swap_independent(tree):
    """two adjacent assignments to plain names with call-free right-hand sides that do not mention each other's target are swapped"""
    tree = copy.deepcopy(tree)

    def simple(st):
        return isinstance(st, ast.Assign) and len(st.targets) == 1 and isinstance(st.targets[0], ast.Name) \
            and not any(isinstance(n, (ast.Call, ast.Await, ast.NamedExpr, ast.Yield)) for n in ast.walk(st.value))
    for owner, field, body in list(_walk_bodies(tree)):
        if isinstance(owner, (ast.Module, ast.ClassDef)):
            continue
        i = 0
        while i + 1 < len(body):
            a, b = body[i], body[i + 1]
            if simple(a) and simple(b) and a.targets[0].id != b.targets[0].id and a.targets[0].id not in _names(b.value) and b.targets[0].id not in _names(a.value):
                body[i], body[i + 1] = b, a
                i += 2
            else:
                i += 1
    ast.fix_missing_locations(tree)
    return tree


def ifelse_to_condexpr(tree):
    """if c: x = a  else: x = b   ->   x = a if c else b      (same single target, one statement per branch)"""
    tree = copy.deepcopy(tree)

    class Tr(ast.NodeTransformer):
        def visit_If(self, node):
            self.generic_visit(node)
            if len(node.body) == 1 and len(node.orelse) == 1 and isinstance(node.body[0], ast.Assign) and isinstance(node.orelse[0], ast.Assign):
                a, b = node.body[0], node.orelse[0]
                if len(a.targets) == 1 and len(b.targets) == 1 and ast.dump(a.targets[0]) == ast.dump(b.targets[0]) \
                        and not any(isinstance(n, (ast.NamedExpr, ast.Await, ast.Yield)) for n in ast.walk(node)):
                    return ast.copy_location(ast.Assign(targets=a.targets, value=ast.IfExp(test=node.test, body=a.value, orelse=b.value)), node)
            return node
    out = Tr().visit(tree)
    ast.fix_missing_locations(out)
    return out


def condexpr_to_ifelse(tree):
    """x = a if c else b   ->   if c: x = a  else: x = b"""
    tree = copy.deepcopy(tree)

    class Tr(ast.NodeTransformer):
        def visit_Assign(self, node):
            if isinstance(node.value, ast.IfExp) and len(node.targets) == 1 and isinstance(node.targets[0], (ast.Name, ast.Attribute)):
                t = node.targets[0]
                mk = lambda v: ast.Assign(targets=[copy.deepcopy(t)], value=v)
                return ast.copy_location(ast.If(test=node.value.test, body=[mk(node.value.body)], orelse=[mk(node.value.orelse)]), node)
            return node
    out = Tr().visit(tree)
    ast.fix_missing_locations(out)
    return out


def drop_else_after_return(tree):
    """if c: ...; return a   else: REST     ->   if c: ...; return a    REST     (the branch ends in return / raise / continue / break)"""
    tree = copy.deepcopy(tree)

    def fix(body):
        out = []
        for st in body:
            for field in ("body", "orelse", "finalbody"):
                b_ = getattr(st, field, None)
                if isinstance(b_, list) and b_ and isinstance(b_[0], ast.stmt):
                    setattr(st, field, fix(b_))
            if isinstance(st, ast.Try):
                for h in st.handlers:
                    h.body = fix(h.body)
            if isinstance(st, ast.If) and st.orelse and st.body and isinstance(st.body[-1], (ast.Return, ast.Raise, ast.Continue, ast.Break)):
                rest = st.orelse
                st.orelse = []
                out.append(st)
                out.extend(rest)
            else:
                out.append(st)
        return out
    for n in ast.walk(tree):
        if isinstance(n, (ast.FunctionDef, ast.AsyncFunctionDef)):
            pass
    tree.body = fix(tree.body)
    ast.fix_missing_locations(tree)
    return tree


def merge_nested_ifs(tree):
    """if a: if b: S   ->   if a and b: S      (neither has an else; the inner `if` is the whole body)"""
    tree = copy.deepcopy(tree)

    class Tr(ast.NodeTransformer):
        def visit_If(self, node):
            self.generic_visit(node)
            if not node.orelse and len(node.body) == 1 and isinstance(node.body[0], ast.If) and not node.body[0].orelse:
                inner = node.body[0]
                node.test = ast.BoolOp(op=ast.And(), values=[node.test, inner.test])
                node.body = inner.body
            return node
    out = Tr().visit(tree)
    ast.fix_missing_locations(out)
    return out


def split_and_ifs(tree):
    """if a and b: S   ->   if a: if b: S      (no else)"""
    tree = copy.deepcopy(tree)

    class Tr(ast.NodeTransformer):
        def visit_If(self, node):
            self.generic_visit(node)
            if not node.orelse and isinstance(node.test, ast.BoolOp) and isinstance(node.test.op, ast.And) and len(node.test.values) == 2:
                a, b = node.test.values
                return ast.copy_location(ast.If(test=a, body=[ast.If(test=b, body=node.body, orelse=[])], orelse=[]), node)
            return node
    out = Tr().visit(tree)
    ast.fix_missing_locations(out)
    return out


def flip_comparisons(tree):
    """a == b -> b == a,  a != b -> b != a,  a < b -> b > a ...  (both operands are names, attribute paths, constants or len() of those:
    no side effects, so the evaluation order does not matter);  `not x in y` is already `x not in y` in the ast"""
    tree = copy.deepcopy(tree)
    flip = {ast.Eq: ast.Eq, ast.NotEq: ast.NotEq, ast.Lt: ast.Gt, ast.Gt: ast.Lt, ast.LtE: ast.GtE, ast.GtE: ast.LtE}

    def simple(n):
        if isinstance(n, ast.Constant):
            return True
        if isinstance(n, ast.Call) and isinstance(n.func, ast.Name) and n.func.id == "len" and len(n.args) == 1:
            return _pure_path(n.args[0])
        return _pure_path(n)
    for n in ast.walk(tree):
        if isinstance(n, ast.Compare) and len(n.ops) == 1 and type(n.ops[0]) in flip and simple(n.left) and simple(n.comparators[0]):
            n.left, n.comparators[0] = n.comparators[0], n.left
            n.ops[0] = flip[type(n.ops[0])]()
    ast.fix_missing_locations(tree)
    return tree


def alias_self_attributes(tree):
    """a method that reads `self.<attr>` at least twice and never stores to it (nor calls anything on `self` that could) gets a local
    alias bound at the top: conservative version - only attributes that no function of the module ever assigns outside __init__/__post_init__"""
    tree = copy.deepcopy(tree)
    assigned_late = set()
    for cls in [n for n in tree.body if isinstance(n, ast.ClassDef)]:
        for m in [x for x in cls.body if isinstance(x, ast.FunctionDef)]:
            for n in ast.walk(m):
                if isinstance(n, ast.Attribute) and isinstance(n.ctx, (ast.Store, ast.Del)) and isinstance(n.value, ast.Name) and n.value.id == "self" \
                        and m.name not in ("__init__", "__post_init__"):
                    assigned_late.add(n.attr)
    counter = [0]
    for cls in [n for n in tree.body if isinstance(n, ast.ClassDef)]:
        for m in [x for x in cls.body if isinstance(x, ast.FunctionDef)]:
            if m.name in ("__init__", "__post_init__") or not m.args.args or m.args.args[0].arg != "self":
                continue
            if any(isinstance(n, (ast.Lambda, ast.FunctionDef)) and n is not m for n in ast.walk(m)):
                continue
            reads = {}
            stored = set()
            for n in ast.walk(m):
                if isinstance(n, ast.Attribute) and isinstance(n.value, ast.Name) and n.value.id == "self":
                    if isinstance(n.ctx, ast.Load):
                        reads.setdefault(n.attr, []).append(n)
                    else:
                        stored.add(n.attr)
            methods = {x.name for x in cls.body if isinstance(x, ast.FunctionDef)}
            for attr, sites in reads.items():
                if len(sites) < 2 or attr in stored or attr in assigned_late or attr in methods:
                    continue
                nm = _fresh(f"_{attr}_al", counter)
                for site in sites:
                    site_parent_fix = site
                    site_parent_fix.__class__ = ast.Name
                    site_parent_fix.__dict__.clear()
                    site_parent_fix.id = nm
                    site_parent_fix.ctx = ast.Load()
                k = 1 if m.body and isinstance(m.body[0], ast.Expr) and isinstance(getattr(m.body[0], "value", None), ast.Constant) else 0
                m.body.insert(k, ast.Assign(targets=[ast.Name(id=nm, ctx=ast.Store())],
                                            value=ast.Attribute(value=ast.Name(id="self", ctx=ast.Load()), attr=attr, ctx=ast.Load())))
    ast.fix_missing_locations(tree)
    return tree


def hoist_call_args(tree):
    """f(g(x), y)  ->  _a = g(x); f(_a, y)   for expression / assignment / return statements whose value is a call with a call as its
    FIRST positional argument (evaluated first anyway, so the order of evaluation is unchanged)"""
    tree = copy.deepcopy(tree)
    counter = [0]
    for owner, field, body in list(_walk_bodies(tree)):
        if isinstance(owner, (ast.Module, ast.ClassDef)):
            continue
        out = []
        for st in body:
            v = st.value if isinstance(st, (ast.Expr, ast.Assign, ast.Return)) else None
            if isinstance(v, ast.Call) and v.args and isinstance(v.args[0], ast.Call) and isinstance(v.func, (ast.Name, ast.Attribute)) \
                    and _pure_path(v.func if isinstance(v.func, ast.Name) else v.func.value) \
                    and not any(isinstance(n, (ast.Starred, ast.Await, ast.Yield, ast.NamedExpr, ast.Lambda, ast.GeneratorExp)) for n in ast.walk(v.args[0])):
                nm = _fresh("_arg", counter)
                out.append(ast.Assign(targets=[ast.Name(id=nm, ctx=ast.Store())], value=v.args[0]))
                v.args[0] = ast.Name(id=nm, ctx=ast.Load())
            out.append(st)
        setattr(owner, field, out)
    ast.fix_missing_locations(tree)
    return tree


def unpack_to_index(tree):
    """a, b = t   ->   _t = t; a = _t[0]; b = _t[1]      (targets are plain names, t is not a literal tuple)"""
    tree = copy.deepcopy(tree)
    counter = [0]
    for owner, field, body in list(_walk_bodies(tree)):
        if isinstance(owner, (ast.Module, ast.ClassDef)):
            continue
        out = []
        for st in body:
            if isinstance(st, ast.Assign) and len(st.targets) == 1 and isinstance(st.targets[0], ast.Tuple) and all(isinstance(e, ast.Name) for e in st.targets[0].elts) \
                    and not isinstance(st.value, (ast.Tuple, ast.List)):
                nm = _fresh("_tup", counter)
                out.append(ast.Assign(targets=[ast.Name(id=nm, ctx=ast.Store())], value=st.value))
                for i, e in enumerate(st.targets[0].elts):
                    out.append(ast.Assign(targets=[ast.Name(id=e.id, ctx=ast.Store())],
                                          value=ast.Subscript(value=ast.Name(id=nm, ctx=ast.Load()), slice=ast.Constant(value=i), ctx=ast.Load())))
            else:
                out.append(st)
        setattr(owner, field, out)
    ast.fix_missing_locations(tree)
    return tree


def return_via_temp(tree):
    """return E  ->  _ret = E; return _ret      (E is not a bare name / constant)"""
    tree = copy.deepcopy(tree)
    counter = [0]
    for owner, field, body in list(_walk_bodies(tree)):
        out = []
        for st in body:
            if isinstance(st, ast.Return) and st.value is not None and not isinstance(st.value, (ast.Name, ast.Constant)):
                nm = _fresh("_ret", counter)
                out.append(ast.Assign(targets=[ast.Name(id=nm, ctx=ast.Store())], value=st.value))
                out.append(ast.Return(value=ast.Name(id=nm, ctx=ast.Load())))
            else:
                out.append(st)
        setattr(owner, field, out)
    ast.fix_missing_locations(tree)
    return tree


def inline_return_temp(tree):
    """x = E; return x  ->  return E      (x is a plain name assigned in the statement right before the return)"""
    tree = copy.deepcopy(tree)
    for owner, field, body in list(_walk_bodies(tree)):
        out = []
        i = 0
        while i < len(body):
            st = body[i]
            nxt = body[i + 1] if i + 1 < len(body) else None
            if isinstance(st, ast.Assign) and len(st.targets) == 1 and isinstance(st.targets[0], ast.Name) and isinstance(nxt, ast.Return) \
                    and isinstance(nxt.value, ast.Name) and nxt.value.id == st.targets[0].id:
                out.append(ast.Return(value=st.value))
                i += 2
            else:
                out.append(st)
                i += 1
        setattr(owner, field, out)
    ast.fix_missing_locations(tree)
    return tree


def positional_to_keyword(tree):
    """f(a, b)  ->  f(a, y=b)   for calls of functions defined at module level in the same module (last positional argument passed by name)"""
    tree = copy.deepcopy(tree)
    defs = {n.name: n for n in tree.body if isinstance(n, ast.FunctionDef) and not n.args.vararg and not n.args.posonlyargs}
    for n in ast.walk(tree):
        if isinstance(n, ast.Call) and isinstance(n.func, ast.Name) and n.func.id in defs and len(n.args) >= 2 \
                and not any(isinstance(a, ast.Starred) for a in n.args) and not any(k.arg is None for k in n.keywords):
            params = [a.arg for a in defs[n.func.id].args.args]
            if len(n.args) <= len(params):
                k = len(n.args) - 1
                if params[k] not in {kw.arg for kw in n.keywords}:
                    n.keywords.insert(0, ast.keyword(arg=params[k], value=n.args[k]))
                    n.args = n.args[:k]
    ast.fix_missing_locations(tree)
    return tree


def integer_thresholds(tree):
    """len(X) > k -> len(X) >= k+1,  len(X) < k -> len(X) <= k-1,  len(X) >= k -> len(X) > k-1,  len(X) != 0 -> len(X) > 0  (lengths are integers)"""
    tree = copy.deepcopy(tree)

    def is_len(x):
        return isinstance(x, ast.Call) and isinstance(x.func, ast.Name) and x.func.id == "len" and len(x.args) == 1
    for n in ast.walk(tree):
        if isinstance(n, ast.Compare) and len(n.ops) == 1 and is_len(n.left) and isinstance(n.comparators[0], ast.Constant) \
                and isinstance(n.comparators[0].value, int) and not isinstance(n.comparators[0].value, bool):
            k = n.comparators[0].value
            op = n.ops[0]
            if isinstance(op, ast.Gt):
                n.ops, n.comparators = [ast.GtE()], [ast.Constant(value=k + 1)]
            elif isinstance(op, ast.Lt):
                n.ops, n.comparators = [ast.LtE()], [ast.Constant(value=k - 1)]
            elif isinstance(op, ast.GtE):
                n.ops, n.comparators = [ast.Gt()], [ast.Constant(value=k - 1)]
            elif isinstance(op, ast.LtE):
                n.ops, n.comparators = [ast.Lt()], [ast.Constant(value=k + 1)]
            elif isinstance(op, ast.NotEq) and k == 0:
                n.ops = [ast.Gt()]
            elif isinstance(op, ast.Eq) and k == 0:
                n.ops, n.comparators = [ast.Lt()], [ast.Constant(value=1)]
    ast.fix_missing_locations(tree)
    return tree


def numpy_spellings(tree):
    """np.array(<list display>) -> np.asarray(<list display>);  x ** 2 -> x * x for a simple operand (name / attribute / subscript of those)"""
    tree = copy.deepcopy(tree)

    def simple(x):
        while isinstance(x, ast.Subscript):
            if not isinstance(x.slice, (ast.Constant, ast.Name)):
                return False
            x = x.value
        return _pure_path(x)

    class Tr(ast.NodeTransformer):
        def visit_Call(self, node):
            self.generic_visit(node)
            if isinstance(node.func, ast.Attribute) and node.func.attr == "array" and isinstance(node.func.value, ast.Name) and node.func.value.id == "np" \
                    and len(node.args) == 1 and not node.keywords and isinstance(node.args[0], (ast.List, ast.Tuple)):
                node.func.attr = "asarray"
            return node

        def visit_BinOp(self, node):
            self.generic_visit(node)
            if isinstance(node.op, ast.Pow) and isinstance(node.right, ast.Constant) and node.right.value == 2 and simple(node.left):
                return ast.copy_location(ast.BinOp(left=node.left, op=ast.Mult(), right=copy.deepcopy(node.left)), node)
            return node
    out = Tr().visit(tree)
    ast.fix_missing_locations(out)
    return out


MECHANICAL = [
    ("list comprehensions assigned to a local rewritten as append loops", comp_to_loop),
    ("every `if` condition evaluated into a temporary first", cond_to_temp),
    ("`for k, v in D.items()` rewritten as `for k in D.keys(): v = D[k]`", items_to_keys),
    ("`for i, e in enumerate(X)` rewritten as `for i in range(len(X)): e = X[i]`", enumerate_to_range),
    ("loop bodies consisting of one `if` rewritten with a guard clause and `continue`", guard_clauses),
    ("`if a and b` / `if a or b` rewritten by De Morgan", de_morgan),
    ("every non-trivial `return <expr>` moved into a new private module-level helper", extract_returns),
    ("`x = []` + append loop rewritten as a list comprehension", loop_to_comp),
    ("adjacent independent simple assignments swapped", swap_independent),
    ("`if c: x = a else: x = b` rewritten as a conditional expression", ifelse_to_condexpr),
    ("`x = a if c else b` rewritten as an if / else statement", condexpr_to_ifelse),
    ("`else` dropped after a branch that ends in return / raise / continue / break", drop_else_after_return),
    ("nested `if a: if b:` merged into `if a and b:`", merge_nested_ifs),
    ("`if a and b:` split into nested ifs", split_and_ifs),
    ("operands of side-effect-free comparisons swapped", flip_comparisons),
    ("read-only `self.<attr>` chains replaced by a local alias bound at the top of the method", alias_self_attributes),
    ("a call passed as first argument hoisted into a temporary", hoist_call_args),
    ("tuple unpacking rewritten as indexing of a temporary", unpack_to_index),
    ("every `return <expr>` routed through a temporary", return_via_temp),
    ("`x = E; return x` rewritten as `return E`", inline_return_temp),
    ("last positional argument of calls to same-module functions passed by keyword", positional_to_keyword),
    ("integer comparisons of len() restated with the neighbouring threshold", integer_thresholds),
    ("np.array of a display spelled np.asarray; x ** 2 spelled x * x", numpy_spellings),
]

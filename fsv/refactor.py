"""Mechanical behaviour-preserving rewrites of a whole module (ast -> ast), used by the thorough tier as
false-alarm probes: each one is applied to every site of a module at once, the module is re-parsed and analysed
(never executed), and the verdict must not move.  Each rewrite is semantics preserving for all inputs under the
stated side condition, which is checked syntactically before a site is rewritten."""
import ast
import copy


def _names(node):
    return {n.id for n in ast.walk(node) if isinstance(n, ast.Name)}


def _fresh(prefix, counter):
    counter[0] += 1
    return f"{prefix}{counter[0]}"


def _walk_bodies(tree):
    """yield every statement list (function bodies, loop bodies, branches) - nested functions included"""
    for n in ast.walk(tree):
        for field in ("body", "orelse", "finalbody"):
            b = getattr(n, field, None)
            if isinstance(b, list) and b and isinstance(b[0], ast.stmt):
                yield n, field, b
        if isinstance(n, ast.Try):
            for h in n.handlers:
                yield h, "body", h.body


def comp_to_loop(tree):
    """x = [elt for t in it if c]  ->  x = []; for t' in it: if c': x.append(elt')   (single generator; x not read by the
    comprehension; the loop variable gets a fresh name so that nothing leaks into the function scope)"""
    tree = copy.deepcopy(tree)
    counter = [0]
    for owner, field, body in list(_walk_bodies(tree)):
        if isinstance(owner, (ast.Module, ast.ClassDef)):
            continue
        out = []
        for st in body:
            if isinstance(st, ast.Assign) and len(st.targets) == 1 and isinstance(st.targets[0], ast.Name) and isinstance(st.value, ast.ListComp) \
                    and len(st.value.generators) == 1 and not st.value.generators[0].is_async and st.targets[0].id not in _names(st.value):
                x = st.targets[0].id
                g = st.value.generators[0]
                tnames = {n.id for n in ast.walk(g.target) if isinstance(n, ast.Name)}
                ren = {t: _fresh(f"_{t}_cv", counter) for t in tnames}

                class R(ast.NodeTransformer):
                    def visit_Name(self, n):
                        if n.id in ren:
                            return ast.copy_location(ast.Name(id=ren[n.id], ctx=n.ctx), n)
                        return n

                    def visit_Lambda(self, n):
                        return n if ({a.arg for a in n.args.args} & set(ren)) else self.generic_visit(n)
                # nested comprehensions that rebind one of the names are left alone (would need scope analysis)
                if any(isinstance(n, (ast.ListComp, ast.SetComp, ast.DictComp, ast.GeneratorExp)) and
                       ({m.id for gg in n.generators for m in ast.walk(gg.target) if isinstance(m, ast.Name)} & tnames)
                       for n in ast.walk(st.value.elt)):
                    out.append(st)
                    continue
                tgt, elt, ifs = R().visit(copy.deepcopy(g.target)), R().visit(copy.deepcopy(st.value.elt)), [R().visit(copy.deepcopy(c)) for c in g.ifs]
                app = ast.Expr(value=ast.Call(func=ast.Attribute(value=ast.Name(id=x, ctx=ast.Load()), attr="append", ctx=ast.Load()), args=[elt], keywords=[]))
                inner = [app]
                if ifs:
                    inner = [ast.If(test=ifs[0] if len(ifs) == 1 else ast.BoolOp(op=ast.And(), values=ifs), body=[app], orelse=[])]
                out.append(ast.Assign(targets=[ast.Name(id=x, ctx=ast.Store())], value=ast.List(elts=[], ctx=ast.Load())))
                out.append(ast.For(target=tgt, iter=g.iter, body=inner, orelse=[]))
            else:
                out.append(st)
        setattr(owner, field, out)
    ast.fix_missing_locations(tree)
    return tree


def cond_to_temp(tree):
    """if c: ...  ->  _c = c; if _c: ...   (same evaluation, once, at the same point; `elif` chains become nested else blocks)"""
    tree = copy.deepcopy(tree)
    counter = [0]

    class Tr(ast.NodeTransformer):
        def visit_If(self, node):
            self.generic_visit(node)
            nm = _fresh("_cond", counter)
            a = ast.Assign(targets=[ast.Name(id=nm, ctx=ast.Store())], value=node.test)
            node.test = ast.Name(id=nm, ctx=ast.Load())
            return [a, node]
    out = Tr().visit(tree)
    ast.fix_missing_locations(out)
    return out


def items_to_keys(tree):
    """for k, v in D.items(): B  ->  for k in D.keys(): v = D[k]; B      (D a name or attribute path)"""
    tree = copy.deepcopy(tree)
    for n in ast.walk(tree):
        if isinstance(n, ast.For) and isinstance(n.target, ast.Tuple) and len(n.target.elts) == 2 and all(isinstance(e, ast.Name) for e in n.target.elts) \
                and isinstance(n.iter, ast.Call) and isinstance(n.iter.func, ast.Attribute) and n.iter.func.attr == "items" and not n.iter.args \
                and _pure_path(n.iter.func.value):
            k, v = n.target.elts
            D = n.iter.func.value
            n.iter = ast.Call(func=ast.Attribute(value=copy.deepcopy(D), attr="keys", ctx=ast.Load()), args=[], keywords=[])
            n.target = ast.Name(id=k.id, ctx=ast.Store())
            n.body = [ast.Assign(targets=[ast.Name(id=v.id, ctx=ast.Store())],
                                 value=ast.Subscript(value=copy.deepcopy(D), slice=ast.Name(id=k.id, ctx=ast.Load()), ctx=ast.Load()))] + n.body
    ast.fix_missing_locations(tree)
    return tree


def _pure_path(n):
    while isinstance(n, ast.Attribute):
        n = n.value
    return isinstance(n, ast.Name)


def enumerate_to_range(tree):
    """for i, e in enumerate(X): B  ->  for i in range(len(X)): e = X[i]; B     (X a name or attribute path)"""
    tree = copy.deepcopy(tree)
    for n in ast.walk(tree):
        if isinstance(n, ast.For) and isinstance(n.target, ast.Tuple) and len(n.target.elts) == 2 and all(isinstance(e, ast.Name) for e in n.target.elts) \
                and isinstance(n.iter, ast.Call) and isinstance(n.iter.func, ast.Name) and n.iter.func.id == "enumerate" and len(n.iter.args) == 1 \
                and not n.iter.keywords and _pure_path(n.iter.args[0]):
            i, e = n.target.elts
            X = n.iter.args[0]
            n.iter = ast.Call(func=ast.Name(id="range", ctx=ast.Load()),
                              args=[ast.Call(func=ast.Name(id="len", ctx=ast.Load()), args=[copy.deepcopy(X)], keywords=[])], keywords=[])
            n.target = ast.Name(id=i.id, ctx=ast.Store())
            n.body = [ast.Assign(targets=[ast.Name(id=e.id, ctx=ast.Store())],
                                 value=ast.Subscript(value=copy.deepcopy(X), slice=ast.Name(id=i.id, ctx=ast.Load()), ctx=ast.Load()))] + n.body
    ast.fix_missing_locations(tree)
    return tree


def guard_clauses(tree):
    """for ...: if c: B   ->   for ...: if not c: continue; B      (the `if` is the whole loop body and has no else)"""
    tree = copy.deepcopy(tree)
    for n in ast.walk(tree):
        if isinstance(n, ast.For) and len(n.body) == 1 and isinstance(n.body[0], ast.If) and not n.body[0].orelse:
            i = n.body[0]
            n.body = [ast.If(test=ast.UnaryOp(op=ast.Not(), operand=i.test), body=[ast.Continue()], orelse=[])] + i.body
    ast.fix_missing_locations(tree)
    return tree


def de_morgan(tree):
    """if a and b: ...  ->  if not (not a or not b): ...     (same short-circuit order, same truth value)"""
    tree = copy.deepcopy(tree)
    for n in ast.walk(tree):
        if isinstance(n, ast.If) and isinstance(n.test, ast.BoolOp):
            op = ast.Or() if isinstance(n.test.op, ast.And) else ast.And()
            n.test = ast.UnaryOp(op=ast.Not(), operand=ast.BoolOp(op=op, values=[ast.UnaryOp(op=ast.Not(), operand=v) for v in n.test.values]))
    ast.fix_missing_locations(tree)
    return tree


MECHANICAL = [
    ("list comprehensions assigned to a local rewritten as append loops", comp_to_loop),
    ("every `if` condition evaluated into a temporary first", cond_to_temp),
    ("`for k, v in D.items()` rewritten as `for k in D.keys(): v = D[k]`", items_to_keys),
    ("`for i, e in enumerate(X)` rewritten as `for i in range(len(X)): e = X[i]`", enumerate_to_range),
    ("loop bodies consisting of one `if` rewritten with a guard clause and `continue`", guard_clauses),
    ("`if a and b` / `if a or b` rewritten by De Morgan", de_morgan),
]

"""E2 - canonical terms: polynomial normal forms with rational coefficients over atoms,
canonical boolean formulas (NNF, integer thresholds), alpha-renaming of binders.
Terms are plain hashable tuples."""
from fractions import Fraction
import itertools

ZERO = ("num", Fraction(0))
ONE = ("num", Fraction(1))
NONE = ("none",)
TRUE = ("bool", True)
FALSE = ("bool", False)


def num(v):
    if isinstance(v, bool):
        return ("bool", v)
    if isinstance(v, int):
        return ("num", Fraction(v))
    if isinstance(v, float):
        if v != v or v in (float("inf"), float("-inf")):
            return ("sym", f"float:{v}")
        return ("num", Fraction(repr(v)))
    if isinstance(v, Fraction):
        return ("num", v)
    raise TypeError(v)


def sym(name):
    return ("sym", name)


def attr(base, name):
    if base[0] == "phi":
        return phi(base[1], attr(base[2], name), attr(base[3], name))
    return ("attr", base, name)


def idx(base, i):
    # indexing a literal sequence with a literal index folds
    if base[0] in ("seq", "arr") and i[0] == "num" and i[1].denominator == 1:
        k = int(i[1])
        items = base[1]
        if -len(items) <= k < len(items):
            return items[k]
    # element `k` of an unfiltered comprehension over range(n), k a loop variable (a position, hence non-negative): the element
    # expression at k (`centres[row]` for `centres = [f(i) for i in range(n)]`)
    if base[0] == "map" and len(base) == 5 and base[4] == TRUE and base[3][0] == "call" and base[3][1] == "range" and len(base[3][2]) == 1 \
            and not base[3][3] and i[0] == "bv":
        return substitute(base[1], {base[2]: i})
    if base[0] == "phi":
        a, b = idx(base[2], i), idx(base[3], i)
        if not (a[0] == "idx" and a[1] == base[2] and b[0] == "idx" and b[1] == base[3]):
            return phi(base[1], a, b)        # distribute only when a branch folds
    return ("idx", base, i)


def call(fn, args=(), kw=()):
    return ("call", fn, tuple(args), tuple(sorted(kw)))


def seq(items):
    return ("seq", tuple(items))


def arr(items):
    return ("arr", tuple(items))


def is_num(t):
    return t[0] == "num"


# ---------------------------------------------------------------- polynomials
# poly: ("poly", ((monomial, coeff), ...)) sorted; monomial: ((atom, exp), ...) sorted; exp Fraction


def _as_poly(t):
    """-> dict monomial -> Fraction"""
    if t[0] == "num":
        return {(): t[1]} if t[1] != 0 else {}
    if t[0] == "bool":
        return {(): Fraction(int(t[1]))} if t[1] else {}
    if t[0] == "poly":
        return dict(t[1])
    return {((t, Fraction(1)),): Fraction(1)}


def _key(x):
    return repr(x)


def _from_poly(d):
    d = {m: c for m, c in d.items() if c != 0}
    if not d:
        return ZERO
    if len(d) == 1:
        (m, c), = d.items()
        if m == ():
            return ("num", c)
        if c == 1 and len(m) == 1 and m[0][1] == 1:
            return m[0][0]
    return ("poly", tuple(sorted(d.items(), key=_key)))


def _mono_mul(m1, m2):
    d = {}
    for a, e in itertools.chain(m1, m2):
        d[a] = d.get(a, Fraction(0)) + e
    return tuple(sorted(((a, e) for a, e in d.items() if e != 0), key=_key))


def _elementwise(op, a, b):
    """arrays (np.array of a literal) combine elementwise; scalars broadcast"""
    if a[0] == "arr" and b[0] == "arr":
        if len(a[1]) != len(b[1]):
            return None
        return arr(op(x, y) for x, y in zip(a[1], b[1]))
    if a[0] == "arr":
        return arr(op(x, b) for x in a[1])
    if b[0] == "arr":
        return arr(op(a, y) for y in b[1])
    return None


def add(a, b):
    if a[0] == "seq" and b[0] == "seq":      # python list concatenation
        return seq(a[1] + b[1])
    if a[0] == "arr" or b[0] == "arr":
        if a[0] == "seq":
            a = arr(a[1])
        if b[0] == "seq":
            b = arr(b[1])
        r = _elementwise(add, a, b)
        if r is not None:
            return r
    if a[0] == "str" and b[0] == "str":
        return ("str", a[1] + b[1])
    # a constant added to a choice one of whose arms is a constant goes into both arms: (m if c else 0) + 1 == (m + 1 if c else 1)
    if a[0] == "num" and b[0] == "phi" and (b[2][0] == "num" or b[3][0] == "num"):
        return phi(b[1], add(a, b[2]), add(a, b[3]))
    if b[0] == "num" and a[0] == "phi" and (a[2][0] == "num" or a[3][0] == "num"):
        return phi(a[1], add(a[2], b), add(a[3], b))
    pa, pb = _as_poly(a), _as_poly(b)
    for m, c in pb.items():
        pa[m] = pa.get(m, Fraction(0)) + c
    return _from_poly(pa)


def neg(a):
    return mul(("num", Fraction(-1)), a)


def sub(a, b):
    return add(a, neg(b))


def mul(a, b):
    if a[0] == "arr" or b[0] == "arr":
        if a[0] == "seq":
            a = arr(a[1])
        if b[0] == "seq":
            b = arr(b[1])
        r = _elementwise(mul, a, b)
        if r is not None:
            return r
    if a[0] == "seq" and b[0] == "num" and b[1].denominator == 1 and b[1] >= 0:   # [x] * 3
        return seq(a[1] * int(b[1]))
    if b[0] == "seq" and a[0] == "num" and a[1].denominator == 1 and a[1] >= 0:
        return seq(b[1] * int(a[1]))
    # a constant factor goes into both branches of a choice: -(1 if c else -1) == (-1 if c else 1)
    if a[0] == "num" and b[0] == "phi" and b[2][0] == "num" and b[3][0] == "num":
        return phi(b[1], mul(a, b[2]), mul(a, b[3]))
    if b[0] == "num" and a[0] == "phi" and a[2][0] == "num" and a[3][0] == "num":
        return phi(a[1], mul(a[2], b), mul(a[3], b))
    pa, pb = _as_poly(a), _as_poly(b)
    out = {}
    for m1, c1 in pa.items():
        for m2, c2 in pb.items():
            m = _mono_mul(m1, m2)
            out[m] = out.get(m, Fraction(0)) + c1 * c2
    return _from_poly(out)


def _frac_pow(c, e):
    """exact rational power or None"""
    if e.denominator == 1:
        k = int(e)
        if c == 0 and k < 0:
            return None
        return c ** k
    return None


def power(a, e):
    """a ** e with e a Fraction"""
    if not isinstance(e, Fraction):
        e = Fraction(e)
    if e == 1:
        return a
    if e == 0:
        return ONE
    if a[0] == "arr":
        return arr(power(x, e) for x in a[1])
    p = _as_poly(a)
    if not p:
        return ZERO if e > 0 else ("call", "pow", (a, ("num", e)), ())
    if len(p) == 1:
        (m, c), = p.items()
        cp = _frac_pow(c, e)
        if cp is not None:
            mm = tuple(sorted(((at, ex * e) for at, ex in m), key=_key))
            return _from_poly({mm: cp})
    if e.denominator == 1 and 1 < e <= 4:
        r = a
        for _ in range(int(e) - 1):
            r = mul(r, a)
        return r
    base = _from_poly(p)
    return _from_poly({((base, e),): Fraction(1)})


def div(a, b):
    if a[0] == "arr" or b[0] == "arr":
        if a[0] == "seq":
            a = arr(a[1])
        if b[0] == "seq":
            b = arr(b[1])
        r = _elementwise(div, a, b)
        if r is not None:
            return r
    if b[0] == "num" and b[1] == 0:
        return ("call", "div", (a, b), ())
    # sum(x) / len(x) is the mean of x
    if a[0] == "call" and a[1] == "sum" and len(a[2]) == 1 and not a[3]:
        x = a[2][0]
        lens = {("call", "len", (x,), ())}
        if x[0] == "map" and x[4] == TRUE:
            lens.add(("call", "len", (x[3],), ()))      # len of an unfiltered comprehension is len of its source
        if b in lens:
            return ("call", "mean", (x,), ())
    return mul(a, power(b, Fraction(-1)))


def sqrt(a):
    return power(a, Fraction(1, 2))


# ---------------------------------------------------------------- booleans
INTLIKE_CALLS = {"len", "numpy.count_nonzero", "int"}


def is_intlike(t):
    if t[0] == "call" and (t[1] in INTLIKE_CALLS):
        return True
    if t[0] == "call" and isinstance(t[1], tuple) and t[1][0] == "m" and t[1][1] in ("count", "index"):
        return True
    if t[0] == "num":
        return t[1].denominator == 1
    if t[0] == "poly":
        return all(c.denominator == 1 and all(is_intlike(a) and e.denominator == 1 and e > 0 for a, e in m) for m, c in t[1])
    return False


def b_not(a):
    k = a[0]
    if k == "bool":
        return ("bool", not a[1])
    if k == "not":
        return a[1]
    if k == "and":
        return b_or(*[b_not(x) for x in a[1]])
    if k == "or":
        return b_and(*[b_not(x) for x in a[1]])
    if k == "exists":
        return ("forall", b_not(a[1]), a[2], a[3])
    if k == "forall":
        return ("exists", b_not(a[1]), a[2], a[3])
    if k == "cmp":
        op, x, y = a[1], a[2], a[3]
        if op == "lt":
            return ("cmp", "le", y, x)       # not (x<y) == y<=x
        if op == "le":
            return ("cmp", "lt", y, x)
        if op == "eq":
            return ("cmp", "ne", x, y)
        if op == "ne":
            return ("cmp", "eq", x, y)
    return ("not", a)


def _flat(kind, items):
    out = []
    for x in items:
        if x[0] == kind:
            out.extend(x[1])
        else:
            out.append(x)
    return out


def b_and(*items):
    items = _flat("and", items)
    out = []
    for x in items:
        if x == FALSE:
            return FALSE
        if x == TRUE:
            continue
        if x not in out:
            out.append(x)
    for x in out:
        if b_not(x) in out:
            return FALSE
    if not out:
        return TRUE
    if len(out) == 1:
        return out[0]
    return ("and", tuple(sorted(out, key=_key)))


def b_or(*items):
    items = _flat("or", items)
    out = []
    for x in items:
        if x == TRUE:
            return TRUE
        if x == FALSE:
            continue
        if x not in out:
            out.append(x)
    for x in out:
        if b_not(x) in out:
            return TRUE
    if not out:
        return FALSE
    if len(out) == 1:
        return out[0]
    return ("or", tuple(sorted(out, key=_key)))


def ige(x, k):
    """x >= k for integer-valued x, canonical threshold atom"""
    return ("ige", x, int(k))


def cmp(op, a, b):
    """op in Lt LtE Gt GtE Eq NotEq Is IsNot In NotIn (ast class names)"""
    if op in ("Gt", "GtE"):
        a, b = b, a
        op = "Lt" if op == "Gt" else "LtE"
    # constant folding
    CONSTK = ("num", "str", "none", "bool")
    # a choice between two constants compared with a constant is the choice's condition (or its negation): (0 if c else 1) == 0  is  c
    for x, y, flip in ((a, b, False), (b, a, True)):
        if x[0] == "phi" and x[2][0] in CONSTK and x[3][0] in CONSTK and y[0] in CONSTK:
            l = cmp(op, *((y, x[2]) if flip else (x[2], y)))
            r = cmp(op, *((y, x[3]) if flip else (x[3], y)))
            if l[0] == "bool" and r[0] == "bool":
                return phi(x[1], l, r)
    if a[0] in CONSTK and b[0] in CONSTK and op in ("Eq", "NotEq", "Is", "IsNot") and not (a[0] == "num" and b[0] == "num"):
        same = a == b
        return ("bool", same if op in ("Eq", "Is") else not same)
    if a[0] == "num" and b[0] == "num":
        r = {"Lt": a[1] < b[1], "LtE": a[1] <= b[1], "Eq": a[1] == b[1], "NotEq": a[1] != b[1]}.get(op)
        if r is not None:
            return ("bool", r)
    if op in ("Lt", "LtE") and (is_intlike(a) and b[0] == "num" or is_intlike(b) and a[0] == "num") \
            and not (a[0] == "num" and b[0] == "num"):
        # integer thresholds: everything becomes  x >= k  or its negation
        if b[0] == "num":      # x < c  or x <= c
            c = b[1]
            # x < c  <=> not (x >= ceil(c));  x <= c <=> not (x >= floor(c)+1)
            import math
            k = math.ceil(c) if op == "Lt" else math.floor(c) + 1
            return ("not", ige(a, k))
        else:                  # c < x  or c <= x
            c = a[1]
            import math
            k = math.floor(c) + 1 if op == "Lt" else math.ceil(c)
            return ige(b, k)
    if op in ("Eq", "NotEq") and ((is_intlike(a) and a[0] != "num" and b[0] == "num") or (is_intlike(b) and b[0] != "num" and a[0] == "num")):
        x, c = (a, b[1]) if b[0] == "num" else (b, a[1])
        if c.denominator == 1:
            k = int(c)
            t = ("and", tuple(sorted([ige(x, k), ("not", ige(x, k + 1))], key=_key)))
            if k == 0 and x[0] == "call" and x[1] == "len":
                t = ("not", ige(x, 1))
            return t if op == "Eq" else b_not(t)
    if op == "Lt":
        return ("cmp", "lt", a, b)
    if op == "LtE":
        return ("cmp", "le", a, b)
    if op in ("Eq", "Is"):
        if a == b:
            return TRUE
        x, y = sorted([a, b], key=_key)
        return ("cmp", "eq", x, y)
    if op in ("NotEq", "IsNot"):
        if a == b:
            return FALSE
        x, y = sorted([a, b], key=_key)
        return ("cmp", "ne", x, y)
    if op in ("In", "NotIn"):
        # membership does not depend on the kind of collection the elements were poured into
        while b[0] == "call" and b[1] in ("set", "list", "tuple", "frozenset") and len(b[2]) == 1 and not b[3]:
            b = b[2][0]
        return ("in", a, b) if op == "In" else ("not", ("in", a, b))
    return ("cmp", op, a, b)


def phi(c, a, b):
    if a == b:
        return a
    if c == TRUE:
        return a
    if c == FALSE:
        return b
    if a == TRUE and b == FALSE:
        return c
    if a == FALSE and b == TRUE:
        return b_not(c)
    if a[0] == "bool" or b[0] == "bool":
        # boolean-valued selections become formulas
        if a == TRUE:
            return b_or(c, b)
        if a == FALSE:
            return b_and(b_not(c), b)
        if b == TRUE:
            return b_or(b_not(c), a)
        if b == FALSE:
            return b_and(c, a)
    if a[0] == "app" and b[0] == "app" and a[1] == b[1]:
        return ("app", a[1], phi(c, a[2], b[2]))          # both branches append to the same list
    if c[0] == "not":
        return phi(c[1], b, a)
    if c[0] == "cmp" and c[1] in ("le", "ne"):
        return phi(b_not(c), b, a)          # canonical polarity: conditions are 'lt' / 'eq'
    return ("phi", c, a, b)


def conjuncts(t):
    if t == TRUE:
        return []
    if t[0] == "and":
        return list(t[1])
    return [t]


# ---------------------------------------------------------------- traversal helpers
def subterms(t):
    """all sub-tuples that look like terms (pre-order)"""
    stack = [t]
    while stack:
        x = stack.pop()
        if isinstance(x, tuple):
            if x and isinstance(x[0], str):
                yield x
            for y in x:
                if isinstance(y, tuple):
                    stack.append(y)


def contains(t, sub):
    return any(x == sub for x in subterms(t))


def substitute(t, mapping):
    """replace sub-terms (exact match) bottom-up; re-normalises polynomials"""
    if t in mapping:
        return mapping[t]
    if not isinstance(t, tuple) or not t:
        return t
    k = t[0]
    if k == "poly":
        out = ZERO
        for m, c in t[1]:
            term = ("num", c)
            for a, e in m:
                term = mul(term, power(substitute(a, mapping), e))
            out = add(out, term)
        return out
    if k in ("num", "sym", "str", "bool", "none", "bv"):
        return t
    if k == "idx":
        return idx(substitute(t[1], mapping), substitute(t[2], mapping))
    if k == "phi":
        return phi(substitute(t[1], mapping), substitute(t[2], mapping), substitute(t[3], mapping))
    if k == "and":
        return b_and(*[substitute(x, mapping) for x in t[1]])
    if k == "or":
        return b_or(*[substitute(x, mapping) for x in t[1]])
    if k == "not":
        return b_not(substitute(t[1], mapping))
    return tuple(substitute(x, mapping) if isinstance(x, tuple) else x for x in t)


BINDERS = {"map": 2, "flatmap": 2, "exists": 2, "forall": 2, "sum": 2, "last": 2}


def alpha(t):
    """canonical renaming of bound variables: binders get de Bruijn levels ('bv', 'dN') (scope-aware, so sibling
    comprehensions agree), free ('bv', n) are numbered by order of first occurrence"""
    free = {}

    def go(x, env, depth):
        if not isinstance(x, tuple):
            return x
        if len(x) == 2 and x[0] == "bv":
            if x in env:
                return env[x]
            if x[1] not in free:
                free[x[1]] = len(free)
            return ("bv", free[x[1]])
        if x and isinstance(x[0], str) and x[0] in BINDERS and len(x) > 3 and isinstance(x[2], tuple) and len(x[2]) == 2 and x[2][0] == "bv":
            bv = x[2]
            new = ("bv", f"d{depth}")
            env2 = dict(env)
            env2[bv] = new
            out = [x[0], go(x[1], env2, depth + 1), new, go(x[3], env, depth)]     # the iterable lives in the outer scope
            for y in x[4:]:
                out.append(go(y, env2, depth + 1))
            return tuple(out)
        if x and x[0] == "lambda" and len(x) == 3:
            env2 = dict(env)
            ps = []
            for i, p_ in enumerate(x[1]):
                env2[p_] = ("bv", f"d{depth}_{i}")
                ps.append(env2[p_])
            return ("lambda", tuple(ps), go(x[2], env2, depth + 1))
        return tuple(go(y, env, depth) for y in x)
    return go(t, {}, 0)


def show(t, depth=0):
    """compact human-readable rendering for reports"""
    if not isinstance(t, tuple) or not t:
        return str(t)
    k = t[0]
    if not isinstance(k, str):
        return "(" + ", ".join(show(x) for x in t) + ")"
    if k == "num":
        return str(t[1])
    if k in ("sym",):
        return str(t[1])
    if k == "bv":
        return f"_{t[1]}"
    if k == "str":
        return repr(t[1])
    if k == "bool":
        return str(t[1])
    if k == "none":
        return "None"
    if k == "attr":
        return f"{show(t[1])}.{t[2]}"
    if k == "idx":
        return f"{show(t[1])}[{show(t[2])}]"
    if k == "call":
        fn = t[1] if isinstance(t[1], str) else "." + t[1][1] if t[1][0] == "m" else show(t[1])
        args = ", ".join(show(a) for a in t[2])
        kw = ", ".join(f"{n}={show(v)}" for n, v in t[3])
        return f"{fn}({', '.join(x for x in (args, kw) if x)})"
    if k in ("seq", "arr"):
        o, c = ("[", "]") if k == "seq" else ("arr[", "]")
        return o + ", ".join(show(x) for x in t[1]) + c
    if k == "poly":
        parts = []
        for m, c in t[1]:
            fs = []
            for a, e in m:
                s = show(a)
                if a[0] == "poly":
                    s = f"({s})"
                fs.append(s if e == 1 else f"{s}^{e}")
            body = "*".join(fs)
            if not body:
                parts.append(str(c))
            elif c == 1:
                parts.append(body)
            elif c == -1:
                parts.append("-" + body)
            else:
                parts.append(f"{c}*{body}")
        return " + ".join(parts).replace("+ -", "- ")
    if k == "cmp":
        return f"({show(t[2])} {t[1]} {show(t[3])})"
    if k == "ige":
        return f"({show(t[1])} >= {t[2]})"
    if k == "not":
        return f"not {show(t[1])}"
    if k in ("and", "or"):
        return "(" + f" {k} ".join(show(x) for x in t[1]) + ")"
    if k == "in":
        return f"({show(t[1])} in {show(t[2])})"
    if k == "phi":
        return f"({show(t[2])} if {show(t[1])} else {show(t[3])})"
    if k == "map":
        c = f" if {show(t[4])}" if len(t) > 4 and t[4] != TRUE else ""
        return f"[{show(t[1])} for {show(t[2])} in {show(t[3])}{c}]"
    if k in ("exists", "forall"):
        return f"{k} {show(t[2])} in {show(t[3])}: {show(t[1])}"
    return k + "(" + ", ".join(show(x) if isinstance(x, tuple) else str(x) for x in t[1:]) + ")"


def transform(t, f):
    """bottom-up rewriting: f(term) -> replacement or None; polynomials and formulas are re-normalised"""
    if not isinstance(t, tuple) or not t or not isinstance(t[0], str):
        if isinstance(t, tuple):
            return tuple(transform(x, f) for x in t)
        return t
    k = t[0]
    if k in ("num", "sym", "str", "bool", "none", "bv"):
        new = t
    elif k == "poly":
        new = ZERO
        for m, c in t[1]:
            term = ("num", c)
            for a, e in m:
                term = mul(term, power(transform(a, f), e))
            new = add(new, term)
    elif k == "idx":
        new = idx(transform(t[1], f), transform(t[2], f))
    elif k == "attr":
        new = attr(transform(t[1], f), t[2])
    elif k == "phi":
        new = phi(transform(t[1], f), transform(t[2], f), transform(t[3], f))
    elif k == "and":
        new = b_and(*[transform(x, f) for x in t[1]])
    elif k == "or":
        new = b_or(*[transform(x, f) for x in t[1]])
    elif k == "not":
        new = b_not(transform(t[1], f))
    else:
        new = tuple(transform(x, f) if isinstance(x, tuple) else x for x in t)
    r = f(new)
    return new if r is None else r

"""Checker self-validation (thorough tier; still static): variants of the current tree are built
IN MEMORY by source substitution, parsed and analysed - never written under /repo, never executed.

  pinned breaking variants  - must make the property's check report a violation
  behaviour-preserving ones - must leave it at zero violations (and must not become undecidable)

A pinned variant that survives or a preserving variant that alarms means the checker is broken: exit 2."""
import re
import sys
from concurrent.futures import ProcessPoolExecutor

from .model import Repo, AnalysisError
from . import core, props


def _norm(src):
    return src.replace(b"\r\n", b"\n")


def make_variant(repo, relpath, old, new, count=1):
    """-> Repo or None when the pattern does not occur in today's source (variant not applicable)"""
    mod = None
    for m in repo.modules.values():
        if m.relpath == relpath:
            mod = m
    if mod is None:
        return None
    src = _norm(mod.src).decode("utf-8")
    if src.count(old) != count:
        return None
    return repo.variant(relpath, src.replace(old, new).encode("utf-8"))


def run_variant(prop, repo):
    """-> ('violation'|'clean'|'undecided', detail)"""
    from . import sym
    sym._cache.clear()
    code, ctx, msgs = core.run_property(prop, "quick", repo=repo)
    if code == 2:
        return "undecided", "; ".join(msgs)[:300]
    viol, kn = core.classify(ctx)
    viol, soft = core.split_restructured(ctx, viol)
    if code == 3 and not viol:
        return "undecided", "; ".join(msgs)[:300]
    und = [r for r in ctx.results if r.status == "undecided"]
    if (soft or und) and not viol:
        return "undecided", "; ".join([f"[{r.rule}] {r.key}: {why}" for r, why in soft] + [f"[{r.rule}] {r.key}: {r.fact}" for r in und])[:300]
    if viol:
        return "violation", "; ".join(f"[{r.rule}] {r.key}" for r in viol)[:400]
    return "clean", ""


def alpha_rename(src, relpath):
    """behaviour-preserving: ast round trip (drops comments/formatting) of one module"""
    import ast
    import copy
    return ast.unparse(ast.parse(src)).encode("utf-8")


class _Renamer:
    """behaviour-preserving: consistent renaming of function-local variables (parameters, globals and attributes untouched)"""

    @staticmethod
    def rename_module(tree, suffix="_rn"):
        import ast
        import copy
        tree = copy.deepcopy(tree)
        for fn in [n for n in ast.walk(tree) if isinstance(n, (ast.FunctionDef, ast.AsyncFunctionDef))]:
            params = {a.arg for a in fn.args.posonlyargs + fn.args.args + fn.args.kwonlyargs}
            if fn.args.vararg:
                params.add(fn.args.vararg.arg)
            if fn.args.kwarg:
                params.add(fn.args.kwarg.arg)
            declared = set()
            nested = set()
            for n in ast.walk(fn):
                if isinstance(n, (ast.Global, ast.Nonlocal)):
                    declared.update(n.names)
                if n is not fn and isinstance(n, (ast.FunctionDef, ast.AsyncFunctionDef, ast.ClassDef)):
                    nested.add(n.name)
            own = []
            todo = list(ast.iter_child_nodes(fn))
            while todo:
                n = todo.pop()
                if isinstance(n, (ast.FunctionDef, ast.AsyncFunctionDef, ast.ClassDef, ast.Lambda)):
                    continue
                own.append(n)
                todo.extend(ast.iter_child_nodes(n))
            local = {n.id for n in own if isinstance(n, ast.Name) and isinstance(n.ctx, (ast.Store, ast.Del))}
            local |= {h.name for h in own if isinstance(h, ast.ExceptHandler) and h.name}
            local -= params | declared | nested
            # names also used inside nested functions / lambdas stay (closures)
            inner = set()
            for n in ast.walk(fn):
                if n is not fn and isinstance(n, (ast.FunctionDef, ast.AsyncFunctionDef, ast.Lambda)):
                    inner |= {x.id for x in ast.walk(n) if isinstance(x, ast.Name)}
            local -= inner
            for n in own:
                if isinstance(n, ast.Name) and n.id in local:
                    n.id = n.id + suffix
                elif isinstance(n, ast.ExceptHandler) and n.name in local:
                    n.name = n.name + suffix
        return tree


def expand_augassign(tree):
    """behaviour-preserving: x op= y  ->  x = x op y (targets without side effects in the repo), plus a debug print at every function start"""
    import ast
    import copy
    import copy
    tree = copy.deepcopy(tree)

    class Tr(ast.NodeTransformer):
        def visit_AugAssign(self, node):
            self.generic_visit(node)
            load = copy.deepcopy(node.target)
            for n in ast.walk(load):
                if hasattr(n, "ctx"):
                    n.ctx = ast.Load()
            return ast.copy_location(ast.Assign(targets=[node.target], value=ast.BinOp(left=load, op=node.op, right=node.value)), node)

        def visit_FunctionDef(self, node):
            self.generic_visit(node)
            dbg = ast.Expr(value=ast.Call(func=ast.Name(id="print", ctx=ast.Load()), args=[ast.Constant(value="debug")], keywords=[]))
            body = node.body
            k = 1 if body and isinstance(body[0], ast.Expr) and isinstance(getattr(body[0], "value", None), ast.Constant) and isinstance(body[0].value.value, str) else 0
            node.body = body[:k] + [dbg] + body[k:]
            return node
    out = Tr().visit(tree)
    ast.fix_missing_locations(out)
    return out


_TASKS = []


def _run_task(i):
    try:
        return _TASKS[i]()
    except AnalysisError as e:
        return "undecided", str(e)[:300]
    except Exception as e:          # a variant that does not even parse / apply: reported, never silently dropped
        return "error", f"{type(e).__name__}: {e}"[:300]


def run(prop, repo, seed):
    """all variants are described first (label, expectation, thunk), then evaluated in parallel in forked workers (the thunks close over
    the parsed tree; nothing is pickled but the small results), then judged"""
    import ast
    import copy
    import json
    import os
    import shutil
    import subprocess
    import tempfile
    import multiprocessing
    from . import refactor, sym
    mod = props.load(prop)
    pinned = getattr(mod, "PINNED", [])
    preserving = getattr(mod, "PRESERVING", [])
    files = sorted({p[1] for p in pinned} | {p[1] for p in preserving})
    table, broken = [], []
    n_applied = 0
    base_out, _ = run_variant(prop, repo)
    tasks = []            # (row dict, expectation, thunk); expectation in {"violation", "same", "no-alarm"}

    def add(row, expect, thunk):
        tasks.append((row, expect, thunk))

    for name, relpath, old, new in pinned:
        v = make_variant(repo, relpath, old, new)
        if v is None:
            table.append(dict(variant=name, kind="breaking", outcome="not-applicable (pattern absent on this tree)"))
            continue
        n_applied += 1
        add(dict(variant=name, kind="breaking"), "violation", (lambda v=v: run_variant(prop, v)))
    # a rule whose expected count is zero on this tree needs a positive example on every run: one of the methods this property's
    # obligations read is made to keep its result on the object and hand it out again on later calls
    code0, ctx0, _ = core.run_property(prop, "quick", repo)
    cands = []
    for qn in sorted(ctx0.functions_analysed if ctx0 is not None else []):
        fq = repo.functions.get(qn)
        if fq is None or fq.cls is None or fq.is_static or fq.name.startswith("__") or not fq.params or fq.params[0] != "self":
            continue
        last = fq.node.body[-1]
        if isinstance(last, ast.Return) and last.value is not None and not (isinstance(last.value, ast.Constant) and last.value.value is None):
            cands.append(fq)
    if cands:
        fq = cands[0]
        tree = copy.deepcopy(fq.module.tree)
        for n in ast.walk(tree):
            if isinstance(n, (ast.FunctionDef, ast.AsyncFunctionDef)) and n.name == fq.name and n.lineno == fq.node.lineno:
                guard = ast.parse("if getattr(self, '_kept_result', None) is not None:\n    return self._kept_result").body[0]
                keep = ast.parse("self._kept_result = 0").body[0]
                keep.value = n.body[-1].value
                n.body[-1].value = ast.parse("self._kept_result").body[0].value
                at = 1 if (isinstance(n.body[0], ast.Expr) and isinstance(n.body[0].value, ast.Constant) and isinstance(n.body[0].value.value, str)) else 0
                n.body[at:at] = [guard]
                n.body.insert(len(n.body) - 1, keep)
        ast.fix_missing_locations(tree)
        n_applied += 1
        add(dict(variant=f"{fq.qualname} keeps its result on the object and returns it on later calls", kind="breaking"), "violation",
            (lambda t=tree, r=fq.module.relpath: run_variant(prop, repo.variant(r, ast.unparse(t).encode("utf-8")))))
    for relpath in files:
        m = [x for x in repo.modules.values() if x.relpath == relpath]
        if not m:
            continue
        tree = m[0].tree
        add(dict(variant=f"ast round trip of {relpath}", kind="preserving"), "same",
            (lambda t=tree, r=relpath: run_variant(prop, repo.variant(r, ast.unparse(t).encode("utf-8")))))
        add(dict(variant=f"augmented assignments expanded and a debug print added to every function in {relpath}", kind="preserving"), "same",
            (lambda t=tree, r=relpath: run_variant(prop, repo.variant(r, ast.unparse(expand_augassign(t)).encode("utf-8")))))
        add(dict(variant=f"renaming of all function-local variables in {relpath}", kind="preserving"), "same",
            (lambda t=tree, r=relpath: run_variant(prop, repo.variant(r, ast.unparse(_Renamer.rename_module(t)).encode("utf-8")))))
        for title, fn in refactor.MECHANICAL:
            new_tree = fn(tree)
            if ast.dump(new_tree) == ast.dump(tree):
                continue
            add(dict(variant=f"{title} in {relpath}", kind="preserving"), "same",
                (lambda t=new_tree, r=relpath: run_variant(prop, repo.variant(r, ast.unparse(t).encode("utf-8")))))
    for name, relpath, old, new in preserving:
        v = make_variant(repo, relpath, old, new)
        if v is None:
            table.append(dict(variant=name, kind="preserving", outcome="not-applicable (pattern absent on this tree)"))
            continue
        n_applied += 1
        add(dict(variant=name, kind="preserving"), "same", (lambda v=v: run_variant(prop, v)))

    def patched(pp):
        tmp = tempfile.mkdtemp(prefix="fsv_var.")
        try:
            shutil.copytree(os.path.join(repo.root, "forsys"), os.path.join(tmp, "forsys"), ignore=shutil.ignore_patterns("__pycache__"))
            subprocess.run(["git", "init", "-q", "."], cwd=tmp, stdout=subprocess.DEVNULL, stderr=subprocess.DEVNULL)
            r = subprocess.run(["git", "apply", "--whitespace=nowarn", pp], cwd=tmp, stdout=subprocess.DEVNULL, stderr=subprocess.DEVNULL)
            if r.returncode != 0:
                return "not-applicable (patch does not apply to this tree)", ""
            return run_variant(prop, Repo.load(tmp))
        finally:
            shutil.rmtree(tmp, ignore_errors=True)
    have_tree = bool(repo.root) and os.path.isdir(os.path.join(repo.root, "forsys"))
    # independently seeded changes that this property's check is on record as catching (seeded/<id>/meta.json): still caught?
    seeded_dir = os.path.join(core.VERIF, "seeded")
    n_seed = 0
    if os.path.isdir(seeded_dir) and have_tree:
        for sid in sorted(os.listdir(seeded_dir)):
            mp, pp = os.path.join(seeded_dir, sid, "meta.json"), os.path.join(seeded_dir, sid, "patch.diff")
            if not (os.path.isfile(mp) and os.path.isfile(pp)):
                continue
            try:
                meta = json.load(open(mp))
            except Exception:
                continue
            if prop not in meta.get("detected_by", []):
                continue
            n_seed += 1
            add(dict(variant=f"seeded change {sid}: {str(meta.get('title', ''))[:100]}", kind="seeded", sid=sid), "violation", (lambda pp=pp: patched(pp)))
    # behaviour-preserving changes written by independent refactoring sub-agents (benign/<id>/): no alarm
    benign_dir = os.path.join(core.VERIF, "benign")
    n_benign = 0
    if os.path.isdir(benign_dir) and have_tree:
        for bid in sorted(os.listdir(benign_dir)):
            pp = os.path.join(benign_dir, bid, "patch.diff")
            if not os.path.isfile(pp):
                continue
            touched = {l.split(" b/", 1)[1].strip() for l in open(pp, errors="replace") if l.startswith("diff --git ") and " b/" in l}
            if not (touched & set(files)):
                continue
            try:
                title = json.load(open(os.path.join(benign_dir, bid, "meta.json"))).get("title", "")
            except Exception:
                title = ""
            n_benign += 1
            add(dict(variant=f"refactoring {bid}: {str(title)[:100]}", kind="preserving", bid=bid), "no-alarm", (lambda pp=pp: patched(pp)))

    # ---- evaluate in parallel (fork: the thunks are inherited, only results travel)
    global _TASKS
    _TASKS = [t[2] for t in tasks]
    jobs = max(1, min(int(os.environ.get("FSV_JOBS", "0") or 0) or (os.cpu_count() or 2), 16, len(tasks) or 1))
    if jobs > 1 and len(tasks) > 1:
        try:
            with multiprocessing.get_context("fork").Pool(jobs) as pool:
                results = pool.map(_run_task, range(len(tasks)), chunksize=1)
        except Exception:
            results = [_run_task(i) for i in range(len(tasks))]
    else:
        results = [_run_task(i) for i in range(len(tasks))]
    _TASKS = []
    for (row, expect, _), (out, detail) in zip(tasks, results):
        row = dict(row, outcome=out, detail=detail)
        sid, bid = row.pop("sid", None), row.pop("bid", None)
        table.append(row)
        if out.startswith("not-applicable"):
            continue
        if expect == "violation" and out != "violation":
            if sid:
                broken.append(f"seeded change {sid}, on record as caught by {prop}, is no longer reported ({out}: {detail})")
            else:
                broken.append(f"pinned breaking variant '{row['variant']}' was not reported ({out}: {detail})")
        elif expect == "same" and out != base_out:
            broken.append(f"behaviour-preserving variant '{row['variant']}' changed the verdict to {out}: {detail}")
        elif expect == "no-alarm" and (out == "error" or (out == "violation" and base_out != "violation")):
            # a refactoring may make the check refuse (exit 2, 'cannot decide'); what it must never do is raise an alarm
            broken.append(f"behaviour-preserving refactoring {bid} raised an alarm: {detail}")
    sym._cache.clear()
    extra = dict(selftest=dict(seeded_changes_rechecked=n_seed, refactorings_rechecked=n_benign, variants=len(table), applied=n_applied,
                               killed=sum(1 for t in table if t["kind"] == "breaking" and t.get("outcome") == "violation"),
                               table=table))
    if broken:
        return 2, extra, [f"ANALYSIS-ERROR property={prop} checker self-validation failed: {b}" for b in broken]
    return 0, extra, []


if __name__ == "__main__":
    prop = sys.argv[1]
    repo = Repo.load()
    code, extra, msgs = run(prop, repo, 0)
    for t in extra["selftest"]["table"]:
        print(f"{t['kind']:10s} {t['outcome'][:12]:12s} {t['variant'][:110]}  {t.get('detail','')[:150]}")
    for m in msgs:
        print(m)
    sys.exit(code)

"""Checker self-validation (thorough tier; still static): variants of the current tree are built
IN MEMORY by source substitution, parsed and analysed - never written under /repo, never executed.

  pinned breaking variants  - must make the property's check report a violation
  behaviour-preserving ones - must leave it at zero violations (and must not become undecidable)

A pinned variant that survives or a preserving variant that alarms means the checker is broken: exit 2."""
import re
import sys
from concurrent.futures import ProcessPoolExecutor

from .model import Repo, AnalysisError
from . import core, props


def _norm(src):
    return src.replace(b"\r\n", b"\n")


def make_variant(repo, relpath, old, new, count=1):
    """-> Repo or None when the pattern does not occur in today's source (variant not applicable)"""
    mod = None
    for m in repo.modules.values():
        if m.relpath == relpath:
            mod = m
    if mod is None:
        return None
    src = _norm(mod.src).decode("utf-8")
    if src.count(old) != count:
        return None
    return repo.variant(relpath, src.replace(old, new).encode("utf-8"))


def run_variant(prop, repo):
    """-> ('violation'|'clean'|'undecided', detail)"""
    from . import sym
    sym._cache.clear()
    code, ctx, msgs = core.run_property(prop, "quick", repo=repo)
    if code == 2:
        return "undecided", "; ".join(msgs)[:300]
    viol, kn = core.classify(ctx)
    if code == 3 and not viol:
        return "undecided", "; ".join(msgs)[:300]
    if viol:
        return "violation", "; ".join(f"[{r.rule}] {r.key}" for r in viol)[:400]
    return "clean", ""


def alpha_rename(src, relpath):
    """behaviour-preserving: ast round trip (drops comments/formatting) of one module"""
    import ast
    return ast.unparse(ast.parse(src)).encode("utf-8")


def run(prop, repo, seed):
    mod = props.load(prop)
    pinned = getattr(mod, "PINNED", [])
    preserving = getattr(mod, "PRESERVING", [])
    table = []
    broken = []
    n_applied = 0
    for name, relpath, old, new in pinned:
        v = make_variant(repo, relpath, old, new)
        if v is None:
            table.append(dict(variant=name, kind="breaking", outcome="not-applicable (pattern absent on this tree)"))
            continue
        n_applied += 1
        try:
            out, detail = run_variant(prop, v)
        except AnalysisError as e:
            out, detail = "undecided", str(e)
        table.append(dict(variant=name, kind="breaking", outcome=out, detail=detail))
        if out != "violation":
            broken.append(f"pinned breaking variant '{name}' was not reported ({out}: {detail})")
    # generic preserving variant: ast round trip of every module touched by the property's pinned list
    files = sorted({p[1] for p in pinned} | {p[1] for p in preserving})
    import ast
    for relpath in files:
        m = [x for x in repo.modules.values() if x.relpath == relpath]
        if not m:
            continue
        v = repo.variant(relpath, ast.unparse(m[0].tree).encode("utf-8"))
        out, detail = run_variant(prop, v)
        base_out, _ = run_variant(prop, repo)
        table.append(dict(variant=f"ast round trip of {relpath}", kind="preserving", outcome=out, detail=detail))
        if out != base_out:
            broken.append(f"behaviour-preserving ast round trip of {relpath} changed the verdict to {out}: {detail}")
    base_out, _ = run_variant(prop, repo)
    for name, relpath, old, new in preserving:
        v = make_variant(repo, relpath, old, new)
        if v is None:
            table.append(dict(variant=name, kind="preserving", outcome="not-applicable (pattern absent on this tree)"))
            continue
        n_applied += 1
        out, detail = run_variant(prop, v)
        table.append(dict(variant=name, kind="preserving", outcome=out, detail=detail))
        if out != base_out:
            broken.append(f"behaviour-preserving variant '{name}' changed the verdict to {out}: {detail}")
    from . import sym
    sym._cache.clear()
    extra = dict(selftest=dict(variants=len(table), applied=n_applied,
                               killed=sum(1 for t in table if t["kind"] == "breaking" and t.get("outcome") == "violation"),
                               table=table))
    if broken:
        return 2, extra, [f"ANALYSIS-ERROR property={prop} checker self-validation failed: {b}" for b in broken]
    return 0, extra, []


if __name__ == "__main__":
    prop = sys.argv[1]
    repo = Repo.load()
    code, extra, msgs = run(prop, repo, 0)
    for t in extra["selftest"]["table"]:
        print(f"{t['kind']:10s} {t['outcome'][:12]:12s} {t['variant']}  {t.get('detail','')[:150]}")
    for m in msgs:
        print(m)
    sys.exit(code)

"""Checker self-validation (thorough tier; still static): variants of the current tree are built
IN MEMORY by source substitution, parsed and analysed - never written under /repo, never executed.

  pinned breaking variants  - must make the property's check report a violation
  behaviour-preserving ones - must leave it at zero violations (and must not become undecidable)

A pinned variant that survives or a preserving variant that alarms means the checker is broken: exit 2."""
import re
import sys
from concurrent.futures import ProcessPoolExecutor

from .model import Repo, AnalysisError
from . import core, props


def _norm(src):
    return src.replace(b"\r\n", b"\n")


def make_variant(repo, relpath, old, new, count=1):
    """-> Repo or None when the pattern does not occur in today's source (variant not applicable)"""
    mod = None
    for m in repo.modules.values():
        if m.relpath == relpath:
            mod = m
    if mod is None:
        return None
    src = _norm(mod.src).decode("utf-8")
    if src.count(old) != count:
        return None
    return repo.variant(relpath, src.replace(old, new).encode("utf-8"))


def run_variant(prop, repo):
    """-> ('violation'|'clean'|'undecided', detail)"""
    from . import sym
    sym._cache.clear()
    code, ctx, msgs = core.run_property(prop, "quick", repo=repo)
    if code == 2:
        return "undecided", "; ".join(msgs)[:300]
    viol, kn = core.classify(ctx)
    viol, soft = core.split_restructured(ctx, viol)
    if code == 3 and not viol:
        return "undecided", "; ".join(msgs)[:300]
    und = [r for r in ctx.results if r.status == "undecided"]
    if (soft or und) and not viol:
        return "undecided", "; ".join([f"[{r.rule}] {r.key}: {why}" for r, why in soft] + [f"[{r.rule}] {r.key}: {r.fact}" for r in und])[:300]
    if viol:
        return "violation", "; ".join(f"[{r.rule}] {r.key}" for r in viol)[:400]
    return "clean", ""


def alpha_rename(src, relpath):
    """behaviour-preserving: ast round trip (drops comments/formatting) of one module"""
    import ast
    return ast.unparse(ast.parse(src)).encode("utf-8")


class _Renamer:
    """behaviour-preserving: consistent renaming of function-local variables (parameters, globals and attributes untouched)"""

    @staticmethod
    def rename_module(tree, suffix="_rn"):
        import ast
        import copy
        tree = copy.deepcopy(tree)
        for fn in [n for n in ast.walk(tree) if isinstance(n, (ast.FunctionDef, ast.AsyncFunctionDef))]:
            params = {a.arg for a in fn.args.posonlyargs + fn.args.args + fn.args.kwonlyargs}
            if fn.args.vararg:
                params.add(fn.args.vararg.arg)
            if fn.args.kwarg:
                params.add(fn.args.kwarg.arg)
            declared = set()
            nested = set()
            for n in ast.walk(fn):
                if isinstance(n, (ast.Global, ast.Nonlocal)):
                    declared.update(n.names)
                if n is not fn and isinstance(n, (ast.FunctionDef, ast.AsyncFunctionDef, ast.ClassDef)):
                    nested.add(n.name)
            own = []
            todo = list(ast.iter_child_nodes(fn))
            while todo:
                n = todo.pop()
                if isinstance(n, (ast.FunctionDef, ast.AsyncFunctionDef, ast.ClassDef, ast.Lambda)):
                    continue
                own.append(n)
                todo.extend(ast.iter_child_nodes(n))
            local = {n.id for n in own if isinstance(n, ast.Name) and isinstance(n.ctx, (ast.Store, ast.Del))}
            local |= {h.name for h in own if isinstance(h, ast.ExceptHandler) and h.name}
            local -= params | declared | nested
            # names also used inside nested functions / lambdas stay (closures)
            inner = set()
            for n in ast.walk(fn):
                if n is not fn and isinstance(n, (ast.FunctionDef, ast.AsyncFunctionDef, ast.Lambda)):
                    inner |= {x.id for x in ast.walk(n) if isinstance(x, ast.Name)}
            local -= inner
            for n in own:
                if isinstance(n, ast.Name) and n.id in local:
                    n.id = n.id + suffix
                elif isinstance(n, ast.ExceptHandler) and n.name in local:
                    n.name = n.name + suffix
        return tree


def expand_augassign(tree):
    """behaviour-preserving: x op= y  ->  x = x op y (targets without side effects in the repo), plus a debug print at every function start"""
    import ast
    import copy
    tree = copy.deepcopy(tree)

    class Tr(ast.NodeTransformer):
        def visit_AugAssign(self, node):
            self.generic_visit(node)
            load = copy.deepcopy(node.target)
            for n in ast.walk(load):
                if hasattr(n, "ctx"):
                    n.ctx = ast.Load()
            return ast.copy_location(ast.Assign(targets=[node.target], value=ast.BinOp(left=load, op=node.op, right=node.value)), node)

        def visit_FunctionDef(self, node):
            self.generic_visit(node)
            dbg = ast.Expr(value=ast.Call(func=ast.Name(id="print", ctx=ast.Load()), args=[ast.Constant(value="debug")], keywords=[]))
            body = node.body
            k = 1 if body and isinstance(body[0], ast.Expr) and isinstance(getattr(body[0], "value", None), ast.Constant) and isinstance(body[0].value.value, str) else 0
            node.body = body[:k] + [dbg] + body[k:]
            return node
    out = Tr().visit(tree)
    ast.fix_missing_locations(out)
    return out


def run(prop, repo, seed):
    mod = props.load(prop)
    pinned = getattr(mod, "PINNED", [])
    preserving = getattr(mod, "PRESERVING", [])
    table = []
    broken = []
    n_applied = 0
    for name, relpath, old, new in pinned:
        v = make_variant(repo, relpath, old, new)
        if v is None:
            table.append(dict(variant=name, kind="breaking", outcome="not-applicable (pattern absent on this tree)"))
            continue
        n_applied += 1
        try:
            out, detail = run_variant(prop, v)
        except AnalysisError as e:
            out, detail = "undecided", str(e)
        table.append(dict(variant=name, kind="breaking", outcome=out, detail=detail))
        if out != "violation":
            broken.append(f"pinned breaking variant '{name}' was not reported ({out}: {detail})")
    # generic preserving variant: ast round trip of every module touched by the property's pinned list
    files = sorted({p[1] for p in pinned} | {p[1] for p in preserving})
    import ast
    for relpath in files:
        m = [x for x in repo.modules.values() if x.relpath == relpath]
        if not m:
            continue
        v = repo.variant(relpath, ast.unparse(m[0].tree).encode("utf-8"))
        out, detail = run_variant(prop, v)
        base_out, _ = run_variant(prop, repo)
        table.append(dict(variant=f"ast round trip of {relpath}", kind="preserving", outcome=out, detail=detail))
        if out != base_out:
            broken.append(f"behaviour-preserving ast round trip of {relpath} changed the verdict to {out}: {detail}")
        v = repo.variant(relpath, ast.unparse(expand_augassign(m[0].tree)).encode("utf-8"))
        out, detail = run_variant(prop, v)
        table.append(dict(variant=f"augmented assignments expanded and a debug print added to every function in {relpath}", kind="preserving", outcome=out, detail=detail))
        if out != base_out:
            broken.append(f"behaviour-preserving expansion of augmented assignments / debug prints in {relpath} changed the verdict to {out}: {detail}")
        v = repo.variant(relpath, ast.unparse(_Renamer.rename_module(m[0].tree)).encode("utf-8"))
        out, detail = run_variant(prop, v)
        table.append(dict(variant=f"renaming of all function-local variables in {relpath}", kind="preserving", outcome=out, detail=detail))
        if out != base_out:
            broken.append(f"behaviour-preserving renaming of locals in {relpath} changed the verdict to {out}: {detail}")
    # mechanical whole-module refactorings (refactor.py): every site of each kind at once
    from . import refactor
    for relpath in files:
        m = [x for x in repo.modules.values() if x.relpath == relpath]
        if not m:
            continue
        base_out, _ = run_variant(prop, repo)
        for title, fn in refactor.MECHANICAL:
            new_tree = fn(m[0].tree)
            if ast.dump(new_tree) == ast.dump(m[0].tree):
                continue
            v = repo.variant(relpath, ast.unparse(new_tree).encode("utf-8"))
            out, detail = run_variant(prop, v)
            table.append(dict(variant=f"{title} in {relpath}", kind="preserving", outcome=out, detail=detail))
            if out != base_out:
                broken.append(f"behaviour-preserving rewrite ({title}) of {relpath} changed the verdict to {out}: {detail}")
    base_out, _ = run_variant(prop, repo)
    for name, relpath, old, new in preserving:
        v = make_variant(repo, relpath, old, new)
        if v is None:
            table.append(dict(variant=name, kind="preserving", outcome="not-applicable (pattern absent on this tree)"))
            continue
        n_applied += 1
        out, detail = run_variant(prop, v)
        table.append(dict(variant=name, kind="preserving", outcome=out, detail=detail))
        if out != base_out:
            broken.append(f"behaviour-preserving variant '{name}' changed the verdict to {out}: {detail}")
    # independently seeded changes that this property's check is on record as catching (seeded/<id>/meta.json): still caught?
    import json, os, shutil, subprocess, tempfile
    seeded_dir = os.path.join(core.VERIF, "seeded")
    n_seed = 0
    if os.path.isdir(seeded_dir) and repo.root and os.path.isdir(os.path.join(repo.root, "forsys")):
        for sid in sorted(os.listdir(seeded_dir)):
            mp, pp = os.path.join(seeded_dir, sid, "meta.json"), os.path.join(seeded_dir, sid, "patch.diff")
            if not (os.path.isfile(mp) and os.path.isfile(pp)):
                continue
            try:
                meta = json.load(open(mp))
            except Exception:
                continue
            if prop not in meta.get("detected_by", []):
                continue
            tmp = tempfile.mkdtemp(prefix="fsv_seed.")
            try:
                shutil.copytree(os.path.join(repo.root, "forsys"), os.path.join(tmp, "forsys"), ignore=shutil.ignore_patterns("__pycache__"))
                subprocess.run(["git", "init", "-q", "."], cwd=tmp, stdout=subprocess.DEVNULL, stderr=subprocess.DEVNULL)
                r = subprocess.run(["git", "apply", "--whitespace=nowarn", pp], cwd=tmp, stdout=subprocess.DEVNULL, stderr=subprocess.DEVNULL)
                if r.returncode != 0:
                    table.append(dict(variant=f"seeded change {sid}", kind="seeded", outcome="not-applicable (patch does not apply to this tree)"))
                    continue
                out, detail = run_variant(prop, Repo.load(tmp))
                n_seed += 1
                table.append(dict(variant=f"seeded change {sid}: {str(meta.get('title', ''))[:100]}", kind="seeded", outcome=out, detail=detail))
                if out != "violation":
                    broken.append(f"seeded change {sid}, on record as caught by {prop}, is no longer reported ({out}: {detail})")
            finally:
                shutil.rmtree(tmp, ignore_errors=True)
    # behaviour-preserving changes written by independent refactoring sub-agents (benign/<id>/): the verdict must not move
    benign_dir = os.path.join(core.VERIF, "benign")
    n_benign = 0
    if os.path.isdir(benign_dir) and repo.root and os.path.isdir(os.path.join(repo.root, "forsys")):
        for bid in sorted(os.listdir(benign_dir)):
            pp = os.path.join(benign_dir, bid, "patch.diff")
            if not os.path.isfile(pp):
                continue
            touched = {l.split(" b/", 1)[1].strip() for l in open(pp, errors="replace") if l.startswith("diff --git ") and " b/" in l}
            if not (touched & set(files)):
                continue
            tmp = tempfile.mkdtemp(prefix="fsv_benign.")
            try:
                shutil.copytree(os.path.join(repo.root, "forsys"), os.path.join(tmp, "forsys"), ignore=shutil.ignore_patterns("__pycache__"))
                subprocess.run(["git", "init", "-q", "."], cwd=tmp, stdout=subprocess.DEVNULL, stderr=subprocess.DEVNULL)
                r = subprocess.run(["git", "apply", "--whitespace=nowarn", pp], cwd=tmp, stdout=subprocess.DEVNULL, stderr=subprocess.DEVNULL)
                if r.returncode != 0:
                    table.append(dict(variant=f"refactoring {bid}", kind="preserving", outcome="not-applicable (patch does not apply to this tree)"))
                    continue
                out, detail = run_variant(prop, Repo.load(tmp))
                n_benign += 1
                try:
                    title = json.load(open(os.path.join(benign_dir, bid, "meta.json"))).get("title", "")
                except Exception:
                    title = ""
                table.append(dict(variant=f"refactoring {bid}: {str(title)[:100]}", kind="preserving", outcome=out, detail=detail))
                # a refactoring may make the check refuse (exit 2, 'cannot decide'); what it must never do is raise an alarm
                if out == "violation" and base_out != "violation":
                    broken.append(f"behaviour-preserving refactoring {bid} raised an alarm: {detail}")
            finally:
                shutil.rmtree(tmp, ignore_errors=True)
    from . import sym
    sym._cache.clear()
    extra = dict(selftest=dict(seeded_changes_rechecked=n_seed, refactorings_rechecked=n_benign, variants=len(table), applied=n_applied,
                               killed=sum(1 for t in table if t["kind"] == "breaking" and t.get("outcome") == "violation"),
                               table=table))
    if broken:
        return 2, extra, [f"ANALYSIS-ERROR property={prop} checker self-validation failed: {b}" for b in broken]
    return 0, extra, []


if __name__ == "__main__":
    prop = sys.argv[1]
    repo = Repo.load()
    code, extra, msgs = run(prop, repo, 0)
    for t in extra["selftest"]["table"]:
        print(f"{t['kind']:10s} {t['outcome'][:12]:12s} {t['variant'][:110]}  {t.get('detail','')[:150]}")
    for m in msgs:
        print(m)
    sys.exit(code)

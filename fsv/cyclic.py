"""Cyclic sequence sums:  sum_i X[i+a]*Y[i+b]  with the offset normalised, so that
np.dot(x, np.roll(y, 1)), np.sum(x*np.roll(y, 1)) and friends share one normal form."""
from fractions import Fraction
from . import terms as T


def AT(k):
    return ("at", int(k))


def seqdesc(t):
    """-> (iter, elt written over AT(offset)) for a (rolled) sequence, else None"""
    if t[0] == "call" and t[1] == "numpy.roll" and len(t[2]) >= 2 and t[2][1][0] == "num" and t[2][1][1].denominator == 1 \
            and not t[3]:
        d = seqdesc(t[2][0])
        if d is None:
            return None
        it, elt = d
        k = int(t[2][1][1])
        return it, shift(elt, -k)          # roll(y, k)[i] == y[i-k]
    if t[0] == "call" and t[1] in ("numpy.array", "numpy.asarray", "list", "tuple") and len(t[2]) == 1 and not t[3]:
        return seqdesc(t[2][0])
    if t[0] == "map" and t[4] == T.TRUE:
        return t[3], T.substitute(t[1], {t[2]: AT(0)})
    if t[0] in ("attr", "sym"):
        return t, AT(0)
    return None


def offsets(t):
    return [x[1] for x in T.subterms(t) if x[0] == "at"]


def shift(t, k):
    offs = set(offsets(t))
    # substitute simultaneously (two-phase to avoid capture)
    tmp = {AT(o): ("at_tmp", o + k) for o in offs}
    t = T.substitute(t, tmp)
    return T.substitute(t, {("at_tmp", o + k): AT(o + k) for o in offs})


def normalise(p):
    """shift every monomial so that its smallest offset is 0 (invariance of a cyclic sum)"""
    if p[0] != "poly":
        offs = offsets(p)
        return shift(p, -min(offs)) if offs else p
    out = T.ZERO
    for m, c in p[1]:
        mono = ("num", c)
        for a, e in m:
            mono = T.mul(mono, T.power(a, e))
        offs = offsets(mono)
        if offs:
            mono = shift(mono, -min(offs))
        out = T.add(out, mono)
    return out


def dot_like(t):
    """numpy.dot(A, B) / numpy.sum(A*B) / sum over a zip -> (iter, summand over AT offsets) or None"""
    if t[0] == "call" and t[1] == "numpy.dot" and len(t[2]) == 2:
        a, b = seqdesc(t[2][0]), seqdesc(t[2][1])
        if a and b and a[0] == b[0]:
            return a[0], T.mul(a[1], b[1])
    if t[0] == "call" and t[1] == "sum" and len(t[2]) == 1:
        inner = t[2][0]
        r = elementwise(inner)
        if r:
            return r
    return None


def elementwise(t):
    """polynomial in (rolled) sequences over one iterator -> (iter, summand)"""
    d = seqdesc(t)
    if d:
        return d
    if t[0] == "poly":
        it = None
        out = T.ZERO
        for m, c in t[1]:
            mono = ("num", c)
            for a, e in m:
                d = seqdesc(a)
                if d is None:
                    return None
                if it is None:
                    it = d[0]
                elif it != d[0]:
                    return None
                mono = T.mul(mono, T.power(d[1], e))
            out = T.add(out, mono)
        if it is not None:
            return it, out
    return None


def to_csum(t):
    """whole term as  (iter, summand)  when it is a rational combination of cyclic sums over one iterator"""
    d = dot_like(t)
    if d:
        return d[0], normalise(d[1])
    if t[0] == "poly":
        it = None
        out = T.ZERO
        for m, c in t[1]:
            if len(m) != 1 or m[0][1] != 1:
                return None
            d = dot_like(m[0][0])
            if d is None:
                return None
            if it is None:
                it = d[0]
            elif it != d[0]:
                return None
            out = T.add(out, T.mul(("num", c), d[1]))
        if it is None:
            return None
        return it, normalise(out)
    return None

"""Run context, obligation bookkeeping, evidence, known findings, exit codes."""
import json
import os
import sys
import time
import traceback

from .model import Repo, AnalysisError, Func

VERIF = os.path.dirname(os.path.dirname(os.path.abspath(__file__)))
KNOWN_FILE = os.path.join(VERIF, "known_findings.json")


def load_known():
    if not os.path.exists(KNOWN_FILE):
        return []
    with open(KNOWN_FILE) as f:
        return json.load(f)["findings"]


def _subterms(t):
    from . import terms
    return terms.subterms(t)


class Result:
    __slots__ = ("rule", "key", "status", "where", "fact", "clause", "soft")

    def __init__(self, rule, key, status, where, fact, clause, soft=False):
        self.rule, self.key, self.status, self.where, self.fact, self.clause = rule, key, status, where, fact, clause
        self.soft = soft          # True: "the expected shape / formula was not matched" (as opposed to: a wrong construct was identified)

    def as_dict(self):
        return dict(rule=self.rule, key=self.key, status=self.status, where=self.where, fact=self.fact, clause=self.clause)


class Ctx:
    """One property, one tree."""

    def __init__(self, prop, repo, tier="quick"):
        self.prop = prop
        self.repo = repo
        self.tier = tier
        self.results = []
        self.functions_analysed = set()
        self.call_sites = 0
        self.rule_instances = {}
        self.configurations = []
        self.trusted = set()
        self.notes = []
        self.advisories = []
        self._clause = ""

    # -- bookkeeping -------------------------------------------------------
    def clause(self, text):
        self._clause = text

    def touch(self, *funcs):
        for f in funcs:
            self.functions_analysed.add(f.qualname if isinstance(f, Func) else str(f))

    def where(self, func, node=None):
        return f"{func.where(node)} {func.qualname}" if isinstance(func, Func) else str(func)

    def ok(self, rule, key, where, fact=""):
        self.results.append(Result(rule, key, "ok", where, fact, self._clause))

    def violation(self, rule, key, where, fact="", soft=False):
        self.results.append(Result(rule, key, "violation", where, fact, self._clause, soft))

    def undecided(self, rule, key, where, fact=""):
        """the obligation could not be decided either way; the run goes on (later obligations may still identify something positively)
        and ends with exit 2 unless a violation is found"""
        self.results.append(Result(rule, key, "undecided", where, fact, self._clause))

    def check(self, cond, rule, key, where, fact_ok="", fact_bad="", value=None):
        if cond:
            self.ok(rule, key, where, fact_ok)
        elif value is not None and any(x[0] in ("lc", "loopres", "undef", "last", "mut") for x in _subterms(value)):
            # the value that failed to match could not be normalised by the evaluator (a container filled in a way it does not
            # summarise): its difference from the expected form proves nothing
            self.undecided(rule, key, where, (fact_bad or fact_ok) + " [the value is not in normal form: cannot decide]")
        else:
            # a failed match: reportable as a violation only while the function still has the structure the matcher was written
            # for (core.restructured); a wrong construct that the checker identifies positively is filed with ctx.violation instead
            self.violation(rule, key, where, fact_bad or fact_ok, soft=True)
        return cond

    def count(self, rule, label, found, minimum):
        self.rule_instances[f"{rule}:{label}"] = dict(found=found, frozen_minimum=minimum)
        if found < minimum:
            raise AnalysisError(f"{rule} instance count for '{label}' is {found}, below the hand-confirmed minimum {minimum} "
                                f"- the rule would pass vacuously; re-bind the anchor")

    def config(self, text):
        self.configurations.append(text)

    def trust(self, text):
        self.trusted.add(text)

    def advisory(self, text):
        self.advisories.append(text)


def run_property(prop, tier, repo=None, quiet=False):
    """-> (exit_code, ctx or None, message lines)"""
    from . import props
    mod = props.load(prop)
    ctx = None
    try:
        repo = repo or Repo.load()
        ctx = Ctx(prop, repo, tier)
        from . import rules
        try:
            mod.run(ctx)
        finally:
            # also when the property's own obligations could not all be bound: a positive finding stays reportable
            ctx.clause("for every history of calls: no result computed in an earlier call is handed out again after the data it was computed from changed")
            try:
                rules.no_memo(ctx)
            except AnalysisError:
                pass
        if not ctx.results:
            raise AnalysisError("no obligation bound to any construct")
        return 0, ctx, []
    except AnalysisError as e:
        try:
            if ctx is not None and any(r.status == "violation" for r in ctx.results):
                # violations already identified positively stay reportable; the run is marked incomplete
                ctx.notes.append(f"analysis incomplete: {e}")
                return 3, ctx, [f"ANALYSIS-ERROR property={prop} {e}"]
        except NameError:
            pass
        return 2, None, [f"ANALYSIS-ERROR property={prop} {e}"]
    except Exception as e:  # analyser bug: never a violation
        tb = traceback.format_exc().strip().splitlines()
        return 2, None, [f"ANALYSIS-ERROR property={prop} analyser exception {type(e).__name__}: {e}"] + tb[-6:]


_FP = None


def statement_bag(repo, func):
    """multiset of the function's own statements (simple statements whole, compound statements by their header), as short hashes"""
    import ast
    import hashlib
    from collections import Counter
    out = Counter()
    for n in repo.own_nodes(func):
        if isinstance(n, ast.stmt) and n is not func.node:
            if isinstance(n, (ast.If, ast.While)):
                key = "H:" + ast.dump(n.test)
            elif isinstance(n, (ast.For, ast.AsyncFor)):
                key = "H:" + ast.dump(n.target) + ast.dump(n.iter)
            elif isinstance(n, (ast.Try, ast.With, ast.AsyncWith, ast.FunctionDef, ast.AsyncFunctionDef, ast.ClassDef)):
                key = "H:" + type(n).__name__
            else:
                key = ast.dump(n)
            out[hashlib.sha1(key.encode()).hexdigest()[:12]] += 1
    return out


EDIT_LIMIT = 8        # statements added + removed (one rewritten statement counts 2): above this the function counts as rewritten


def restructured(ctx, result):
    """A failed match (soft result) is reportable as a violation only while the function it is anchored in is still close to what it
    was when the matcher was written: at most EDIT_LIMIT statements added or removed relative to the recorded baseline
    (fsv/baseline_stmts.json).  A function that has been rewritten more than that may say the same thing differently, and the
    failed match is 'cannot decide'.  -> description of the restructuring, else None"""
    global _FP
    if not getattr(result, "soft", False):
        return None
    if _FP is None:
        try:
            _FP = json.load(open(os.path.join(VERIF, "fsv", "baseline_stmts.json")))["functions"]
        except Exception:
            _FP = {}
    if not _FP:
        return None
    q = result.key.split(" / ")[0].strip()
    if q not in ctx.repo.functions:
        parts = str(result.where).split()
        q = parts[1] if len(parts) > 1 else q
    f = ctx.repo.functions.get(q)
    if f is None:
        return None
    was = _FP.get(q)
    if was is None:
        return f"{q} did not exist when the obligations were bound"
    from collections import Counter
    now, was = statement_bag(ctx.repo, f), Counter(was)
    delta = sum(((now - was) + (was - now)).values())
    # for a small function the absolute limit would allow a complete rewrite: there the limit is half its statements (at least 4, i.e.
    # two rewritten statements)
    limit = min(EDIT_LIMIT, max(4, (3 * sum(was.values())) // 4))
    if delta > limit:
        return f"{q} has been rewritten since the obligations were bound ({delta} statements added or removed, limit {limit})"
    return None


def split_restructured(ctx, viol):
    """-> (reportable violations, [(result, why)] that are only 'cannot decide')"""
    hard, soft = [], []
    for r in viol:
        why = restructured(ctx, r)
        (soft.append((r, why)) if why else hard.append(r))
    return hard, soft


def classify(ctx):
    """split violations into unlisted / known; returns (violations, known, fixed_entries_seen)"""
    known = [k for k in load_known() if k["property"] == ctx.prop]
    viol, kn = [], []
    for r in ctx.results:
        if r.status != "violation":
            continue
        hit = None
        for k in known:
            if k.get("status") == "known" and k["key"] == r.key:
                hit = k
                break
        if hit:
            kn.append((r, hit))
        else:
            viol.append(r)
    return viol, kn


def write_evidence(prop, tier, seed, wall, ctx, viol, kn, extra=None, explanation=""):
    n_ob = len(ctx.results)
    n_ok = sum(1 for r in ctx.results if r.status == "ok")
    samples = [r.as_dict() for r in ctx.results]
    distinct = len({(r.rule, r.key) for r in ctx.results})
    cov = dict(
        explanation=explanation,
        obligations=n_ob,
        discharged=n_ok,
        evaluations=n_ob,
        distinct_nontrivial=distinct,
        rule="one case = one obligation (rule instance bound to a construct of /repo's current source); "
             "non-trivial = bound to at least one AST construct; distinct = distinct (rule, semantic key)",
        samples=samples,
        known_findings=[dict(key=r.key, where=r.where, what_fails=k.get("what_fails", "")) for r, k in kn],
        violations=[r.as_dict() for r in viol],
        functions_analysed=sorted(ctx.functions_analysed),
        n_functions_in_package=len(ctx.repo.functions),
        n_modules_parsed=len(ctx.repo.modules),
        rule_instances=ctx.rule_instances,
        configurations=ctx.configurations,
        trusted_base=sorted(ctx.trusted) + ["CPython ast module", "hand-confirmed rule-instance tables (DESIGN.md appendix B)"],
        advisories=ctx.advisories,
        checker_cmd=f"./check {prop} --tier {tier}",
        exhaustive=True,
    )
    if extra:
        cov.update(extra)
    ev = dict(
        property_id=prop, tier=tier, seed=seed, level="other", coverage=cov,
        assumptions=[
            "decides only the structural clauses listed in DESIGN.md section 3 for this property (necessary conditions), "
            "not the numerical behaviour; the undecided clauses are listed there as N",
            "CPython reference counting runs __del__ at the last `del` of a dict entry (forsys relies on it)",
        ] + list(ctx.notes),
        wall_s=round(wall, 3),
        violations=len(viol),
    )
    os.makedirs(os.path.join(VERIF, "evidence"), exist_ok=True)
    path = os.path.join(VERIF, "evidence", f"{prop}.json")
    with open(path, "w") as f:
        json.dump(ev, f, indent=1, sort_keys=False, default=str)
    return path


def write_replays(prop, viol):
    d = os.path.join(VERIF, "evidence", "replay")
    os.makedirs(d, exist_ok=True)
    # remove stale replays of this property
    for fn in os.listdir(d):
        if fn.startswith(prop + "-"):
            os.remove(os.path.join(d, fn))
    paths = []
    for i, r in enumerate(viol):
        p = os.path.join(d, f"{prop}-{i}.json")
        with open(p, "w") as f:
            json.dump(dict(property=prop, **r.as_dict()), f, indent=1)
        paths.append(os.path.relpath(p, VERIF))
    return paths


def main(argv=None):
    import argparse
    ap = argparse.ArgumentParser()
    ap.add_argument("prop")
    ap.add_argument("--tier", default=os.environ.get("VERIF_TIER", "quick"), choices=["quick", "thorough"])
    ap.add_argument("--replay")
    ap.add_argument("--no-evidence", action="store_true")
    a = ap.parse_args(argv)
    try:
        seed = int(os.environ.get("VERIF_SEED", "0"))
    except ValueError:
        seed = 0
    t0 = time.time()
    code, ctx, msgs = run_property(a.prop, a.tier)
    if code == 2:
        for m in msgs:
            print(m)
        return 2
    viol, kn = classify(ctx)
    viol, soft = split_restructured(ctx, viol)
    for r, why in soft:
        print(f"ANALYSIS-ERROR property={a.prop} {r.where} [{r.rule}] {r.key}: the obligation no longer matches and {why}; a restructured function may "
              f"say the same thing differently - cannot decide, re-bind the anchor")
    if code == 3:
        for m in msgs:
            print(m)
        if not viol:
            return 2
    und = [r for r in ctx.results if r.status == "undecided"]
    for r in und:
        print(f"ANALYSIS-ERROR property={a.prop} {r.where} [{r.rule}] {r.key}: {r.fact}")
    if (soft or und) and not viol:
        return 2
    if a.replay:
        with open(a.replay if os.path.isabs(a.replay) else os.path.join(VERIF, a.replay)) as f:
            want = json.load(f)
        hits = [r for r in ctx.results if r.key == want["key"] and r.rule == want["rule"]]
        if not hits:
            print(f"ANALYSIS-ERROR property={a.prop} replayed obligation {want['key']} no longer binds")
            return 2
        bad = [r for r in hits if r.status == "violation"]
        for r in hits:
            print(f"replay {r.status}: {r.where} [{r.rule}] {r.key} :: {r.fact}")
        if bad:
            print(f"VIOLATION property={a.prop} replay={a.replay}")
            return 1
        return 0
    extra, explanation = {}, ""
    from . import props
    mod = props.load(a.prop)
    explanation = getattr(mod, "EXPLANATION", "")
    if a.tier == "thorough":
        from . import selftest
        st_code, st_extra, st_msgs = selftest.run(a.prop, ctx.repo, seed)
        extra.update(st_extra)
        if st_code == 2:
            for m in st_msgs:
                print(m)
            return 2
    wall = time.time() - t0
    if not a.no_evidence:
        write_evidence(a.prop, a.tier, seed, wall, ctx, viol, kn, extra, explanation)
    for r, k in kn:
        print(f"KNOWN-FINDING: property={a.prop} {r.where} [{r.rule}] {r.key} :: {k.get('what_fails', r.fact)}")
    for adv in ctx.advisories:
        print(f"ADVISORY property={a.prop} {adv}")
    n_ok = sum(1 for r in ctx.results if r.status == "ok")
    print(f"property={a.prop} tier={a.tier} obligations={len(ctx.results)} discharged={n_ok} "
          f"known={len(kn)} violations={len(viol)} functions={len(ctx.functions_analysed)} wall={wall:.2f}s")
    if viol and a.no_evidence:
        for r in viol:
            print(f"  {r.where} [{r.rule}] {r.key} :: {r.fact}")
            print(f"VIOLATION property={a.prop} replay=<not written: --no-evidence>")
        return 1
    if viol:
        paths = write_replays(a.prop, viol)
        for r, p in zip(viol, paths):
            print(f"  {r.where} [{r.rule}] {r.key} :: {r.fact}")
            print(f"VIOLATION property={a.prop} replay={p}")
        return 1
    elif not a.no_evidence:
        write_replays(a.prop, [])
    return 0

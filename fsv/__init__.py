"""fsv - forsys static verification (ast-only)."""

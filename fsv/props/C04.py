"""C04 - pressure step: Young-Laplace equations with a zero-sum least-squares solution (DESIGN.md section 3, C04)."""
import ast
from fractions import Fraction

from .. import terms as T
from .. import sym, rules
from ..model import AnalysisError

EXPLANATION = ("Row shape of the Young-Laplace system (exactly two stores, in the columns of the interface's two cells, the two "
               "orientation branches exact negations), rhs = tension * total turning with normalized=False, curvature and trapezoid "
               "formulas as normal-form identities with unit typing (curvature L^-1, turning L^0), normal equations bordered by the "
               "zero-sum constraint, one multiplier before the strip, zero re-insertion driven by the same column list as the deletion, "
               "linearity in the tensions.")

PM = "forsys.pmatrix.PressureMatrix"
GM = "forsys.general_matrix.GeneralMatrix"
BE = "forsys.edge.BigEdge"
SELF = T.sym("self")


def seed(t):
    if t[0] == "attr" and t[2] in ("xs", "ys", "x", "y"):
        return rules.Dim({"L": Fraction(1)})
    return None


def run(ctx):
    repo = ctx.repo
    rules.borrow(ctx, "C08", funcs=["forsys.edge.BigEdge.__post_init__"], minimum=2, because="the sign of a pressure row follows the order of BigEdge.own_cells")
    ctx.config("method='lagrange_pressure' (the documented call), allow_negatives default")

    # ================================================================== one row per internal interface
    ctx.clause("one equation per internal interface, in the order of frame.internal_big_edges")
    gi = repo.func(f"{GM}.__post_init__")
    ctx.touch(gi)
    sgi = sym.summarize(repo, gi.qualname)
    st = [e for e in sgi.stores("big_edges_to_use") if e.base == SELF]
    ctx.check(len(st) == 1 and st[0].value == T.attr(T.attr(SELF, "frame"), "internal_big_edges"), "ALIGN",
              f"{gi.qualname} / ALIGN / equations enumerate frame.internal_big_edges", ctx.where(gi),
              "big_edges_to_use = frame.internal_big_edges", "the pressure system does not enumerate frame.internal_big_edges")
    bm = repo.func(f"{PM}._build_matrix")
    ctx.touch(bm)
    sb = sym.summarize(repo, bm.qualname)
    rows = [e for e in sb.stores() if e.sub and e.attr in ("lhs_matrix", "rhs_matrix")]
    okr = len(rows) == 2
    for e in rows:
        lp = e.loops()
        okr = okr and len(lp) == 1 and lp[0][2] == T.call("enumerate", (T.attr(SELF, "big_edges_to_use"),)) and not e.conds()
        if okr:
            b = ("bv", lp[0][1])
            row = T.call(f"{PM}.get_row", (SELF, T.idx(b, T.num(1))))
            okr = e.key == T.idx(b, T.num(0)) and e.value == T.idx(row, T.num(0 if e.attr == "lhs_matrix" else 1))
    ctx.check(okr, "ALIGN", f"{bm.qualname} / ALIGN / row i = get_row(i-th interface): lhs <- [0], rhs <- [1]", ctx.where(bm),
              "lhs_matrix[i], rhs_matrix[i] = get_row(big_edges_to_use[i])", "rows are not filled position-wise from get_row of the same interface")
    mo = [e for e in sb.stores("mapping_order") if e.base == SELF and not e.sub]
    b0 = ("bv", 0)
    want = T.call("dict", (("map", T.seq((T.idx(b0, T.num(1)), T.idx(b0, T.num(0)))), b0, T.call("enumerate", (T.attr(T.attr(SELF, "frame"), "cells"),)), T.TRUE),))
    ctx.clause("each cell has its own column (cell id -> position in frame.cells)")
    ctx.check(len(mo) == 1 and T.alpha(mo[0].value) == T.alpha(want), "ALIGN", f"{bm.qualname} / ALIGN / mapping_order = {{cell id: position in frame.cells}}", ctx.where(bm),
              "mapping_order enumerates frame.cells", f"mapping_order is {T.show(T.alpha(mo[0].value))[:160] if mo else 'not stored'}")

    # ================================================================== row shape
    gr = repo.func(f"{PM}.get_row")
    ctx.touch(gr)
    be = T.sym(gr.params[1])
    s = sym.summarize(repo, gr.qualname)
    ctx.clause("two non-zeros +1/-1 in the columns of the interface's two cells; the orientation branches are exact negations")
    oc = T.attr(be, "own_cells")
    c1 = T.idx(T.attr(SELF, "mapping_order"), T.idx(oc, T.num(0)))
    c2 = T.idx(T.attr(SELF, "mapping_order"), T.idx(oc, T.num(1)))
    st = [e for e in s.stores() if e.sub and e.attr and e.attr.startswith("$")]
    two = {T.ige(T.call("len", (oc,)), 2), T.b_not(T.ige(T.call("len", (oc,)), 3))}
    branches = {}

    def is_len_test(c):
        x = c[1] if c[0] == "not" else c
        return x[0] == "ige" and x[1][0] == "call" and x[1][1] == "len"
    for e in st:
        cs = {c for c in e.conds() if not is_len_test(c)}
        on_tension = {c for c in cs if any(x == T.attr(be, "tension") for x in T.subterms(c))}
        if on_tension:
            # positively wrong: the +-1 pair of an interface is written whatever its tension (T = 0 gives the equation p_a - p_b = 0)
            ctx.violation("GUARD", f"{gr.qualname} / GUARD / the +-1 pair is written for every internal interface, whatever its tension", ctx.where(gr, e.node),
                          f"`{gr.module.line(e.node.lineno)}` is reached only under {[T.show(c)[:60] for c in on_tension]}: an interface whose tension is 0 loses its "
                          "equation p_a - p_b = 0 instead of imposing it, and the pressures stop being linear in the tensions")
            cs -= on_tension
        if len(cs) != 1:
            raise AnalysisError(f"{ctx.where(gr, e.node)}: row store under {len(cs)} orientation conditions - unsupported shape")
        branches.setdefault(next(iter(cs)), {})[e.key] = e.value
    ok = len(branches) == 2
    detail = {T.show(c)[:80]: {T.show(k)[-30:]: T.show(v) for k, v in d.items()} for c, d in branches.items()}
    if ok:
        (ca, da), (cb, db) = branches.items()
        ok = ca == T.b_not(cb) and set(da) == {c1, c2} == set(db) and all(da[k] == T.neg(db[k]) for k in da) \
            and {da[c1], da[c2]} == {T.num(1), T.num(-1)}
    ctx.check(ok, "FORM", f"{gr.qualname} / FORM / row = +-(e[col(cell0)] - e[col(cell1)]), sign by one test", ctx.where(gr),
              "stores only at mapping_order[own_cells[0]] and mapping_order[own_cells[1]], values (1,-1) / (-1,1)",
              f"row stores are {detail}")
    init = [e for e in s.events if e.kind == "assign" and st and "$" + e.name == st[0].attr and not e.loops()]
    ctx.check(bool(init) and init[0].value == T.call("numpy.zeros", (T.call("len", (T.attr(SELF, "mapping_order"),)),)), "GUARD",
              f"{gr.qualname} / GUARD / row starts as zeros over the cells", ctx.where(gr), "np.zeros(len(mapping_order))", "the row does not start as zeros(len(mapping_order))")
    raises = [e for e in s.events if e.kind == "raise"]
    ctx.check(any(T.b_or(T.b_not(T.ige(T.call("len", (oc,)), 2)), T.ige(T.call("len", (oc,)), 3)) in e.conds() or
                  set(e.conds()) & {T.b_not(T.ige(T.call("len", (oc,)), 2)), T.ige(T.call("len", (oc,)), 3)} for e in raises), "GUARD",
              f"{gr.qualname} / GUARD / interfaces not separating exactly two cells are rejected", ctx.where(gr),
              "raise unless len(own_cells) == 2", "get_row no longer rejects interfaces that do not separate exactly two cells")
    sign_cond = [c for c in branches if c[0] == "cmp"]
    okc = False
    for c in branches:
        for x in T.subterms(c):
            if x == T.call("forsys.cell.Cell.get_area_sign", (T.idx(T.attr(T.attr(SELF, "frame"), "cells"), T.idx(oc, T.num(0))),)):
                okc = True
    ctx.check(okc, "FORM", f"{gr.qualname} / FORM / orientation from the area sign of the interface's first cell", ctx.where(gr),
              "test on frame.cells[own_cells[0]].get_area_sign()", "the orientation test does not use the area sign of own_cells[0]")

    ctx.clause("rhs = interface tension x total turning (not divided by the length)")
    ret = s.ret()
    rhs = ret[1][1] if ret[0] == "seq" and len(ret[1]) == 2 else None
    want = T.mul(T.attr(be, "tension"), T.call(f"{BE}.calculate_total_curvature", (be,), (("normalized", T.FALSE),)))
    want2 = T.mul(T.attr(be, "tension"), T.call(f"{BE}.calculate_total_curvature", (be, T.FALSE)))
    if rhs is None:
        raise AnalysisError("get_row no longer returns (row, rhs)")
    if rhs == want2:
        rhs = want
    rules.decide_equal(ctx, "FORM", f"{gr.qualname} / FORM / rhs = tension * calculate_total_curvature(normalized=False)", ctx.where(gr), rhs, want, "rhs value")

    # ================================================================== turning estimate
    tc = repo.func(f"{BE}.calculate_total_curvature")
    cv = repo.func(f"{BE}.calculate_curvature")
    ctx.touch(tc, cv)
    pn = tc.params[1] if len(tc.params) > 1 else "normalized"
    stc = sym.summarize(repo, tc.qualname, bindings={pn: T.FALSE})
    K = T.call(cv.qualname, (SELF,))
    xs, ys = T.attr(SELF, "xs"), T.attr(SELF, "ys")
    dxs, dys = T.call("numpy.diff", (xs,)), T.call("numpy.diff", (ys,))
    ds = T.sqrt(T.add(T.mul(dxs, dxs), T.mul(dys, dys)))
    trap = T.mul(T.div(T.add(T.idx(K, ("slice", T.num(1), T.NONE, T.NONE)), T.idx(K, ("slice", T.NONE, T.num(-1), T.NONE))), T.num(2)), ds)
    ctx.clause("total turning = trapezoid integral of the curvature over arc length (scale free)")
    rules.decide_equal(ctx, "FORM", f"{tc.qualname} / FORM / sum((k[1:]+k[:-1])/2 * ds), ds = sqrt(dx^2+dy^2)", ctx.where(tc),
                       stc.ret(), T.call("sum", (trap,)), "total curvature (normalized=False)")
    scv = sym.summarize(repo, cv.qualname)
    gx, gy = T.call("numpy.gradient", (xs,)), T.call("numpy.gradient", (ys,))
    g2x, g2y = T.call("numpy.gradient", (gx,)), T.call("numpy.gradient", (gy,))
    kspec = T.div(T.sub(T.mul(g2x, gy), T.mul(gx, g2y)), T.power(T.add(T.mul(gx, gx), T.mul(gy, gy)), Fraction(3, 2)))
    rules.decide_equal(ctx, "FORM", f"{cv.qualname} / FORM / (x''y' - x'y'') / (x'^2 + y'^2)^(3/2)", ctx.where(cv), scv.ret(), kspec, "curvature")
    ctx.clause("the turning estimate is unchanged by uniform scaling (curvature L^-1, turning L^0)")
    typer = rules.DimTyper(seed, dict(rules.BASIC_DIM_CALLS, **{cv.qualname: lambda self_, t: rules.Dim({"L": Fraction(-1)})}))
    for f_, term, want_d, what in ((cv, scv.ret(), rules.Dim({"L": Fraction(-1)}), "curvature"), (tc, stc.ret(), rules.Dim(), "total turning")):
        try:
            d = typer.dim(term)
            ctx.check(d == want_d, "DIM", f"{f_.qualname} / DIM / {what} has dimension {want_d}", ctx.where(f_), f"{d}", f"{what} has dimension {d}, expected {want_d}")
        except rules.Inhomogeneous as e:
            ctx.violation("DIM", f"{f_.qualname} / DIM / {what} has dimension {want_d}", ctx.where(f_), f"{what} is dimensionally inhomogeneous: {e}")

    ctx.clause("pressures scale linearly with the tensions (lhs tension-free, rhs of degree one)")
    free = not any(x[0] == "attr" and x[2] in ("tension", "pressure", "gt") for t_ in (stc.ret(), scv.ret()) for x in T.subterms(t_))
    lhs_const = all(v[0] == "num" for d in branches.values() for v in d.values())
    ctx.check(free and lhs_const, "LIN", f"{gr.qualname} / LIN / lhs entries are constants, rhs = tension * (tension-free turning)", ctx.where(gr),
              "Lambda-degree of rhs is exactly 1, of lhs 0", "the pressure system is no longer linear in the tensions")

    # ================================================================== normal equations + constraint
    ss_f = repo.func(f"{GM}.solve_system")
    al = repo.func(f"{GM}.add_lagrange_multiplier")
    ctx.touch(ss_f, al)
    ctx.clause("least-squares solution with zero sum: normal equations bordered by the sum-zero constraint")
    sal = sym.summarize(repo, al.qualname)
    A, r, c = T.sym(al.params[1]), T.sym(al.params[2]), T.sym(al.params[3])
    ret = rules.arrnf(sal.ret())

    def shape(m, k):
        return T.idx(T.attr(m, "shape"), T.num(k))
    spec_m = T.call("numpy.hstack", (T.seq((T.call("numpy.vstack", (T.seq((A, ("fill", T.num(1), shape(A, 1)))),)),
                                             ("col", ("concat", ("fill", T.num(1), shape(A, 0)), T.seq((T.num(0),)))))),))
    spec_r = ("concat", r, T.seq((c,)))
    if ret[0] != "seq" or len(ret[1]) != 2:
        raise AnalysisError("add_lagrange_multiplier no longer returns (lhs, rhs)")
    rules.decide_equal(ctx, "FORM", f"{al.qualname} / FORM / [[N, 1],[1^T, 0]]", ctx.where(al), ret[1][0], spec_m, "bordered matrix")
    rules.decide_equal(ctx, "FORM", f"{al.qualname} / FORM / rhs extended by the constraint value", ctx.where(al), ret[1][1], spec_r, "bordered rhs")
    cfg = {"method": ("str", "lagrange_pressure")}
    sss = sym.summarize(repo, ss_f.qualname, config=cfg)
    L, R = T.attr(SELF, "lhs_matrix"), T.attr(SELF, "rhs_matrix")
    N = T.call("matmul", (T.call("transpose", (L,)), L))
    Nr = T.call("matmul", (T.call("transpose", (L,)), R))
    calls = [e for e in sss.calls() if e.target == al.qualname]
    ok = len(calls) == 1 and calls[0].args[:2] == (N, Nr) and len(calls[0].args) >= 3 and calls[0].args[2] == T.ZERO and not calls[0].conds()
    ctx.check(ok, "FORM", f"{ss_f.qualname} / FORM / constraint applied to (L^T L, L^T r) with value 0", ctx.where(ss_f),
              "add_lagrange_multiplier(lhs.T @ lhs, lhs.T @ rhs, 0.)",
              "under method='lagrange_pressure' the normal equations are not bordered with the zero-sum constraint")
    AUG = T.call(al.qualname, (SELF, N, Nr, T.ZERO))
    f64 = ("mod", "numpy.float64")
    Am, Ar = T.call("astype", (T.idx(AUG, T.num(0)), f64)), T.call("astype", (T.idx(AUG, T.num(1)), f64))
    exact = T.call("matmul", (T.call("numpy.linalg.inv", (Am,)), Ar))
    xs_ = [e for e in sss.events if e.kind == "assign" and e.value == exact]
    ctx.check(bool(xs_), "FORM", f"{ss_f.qualname} / FORM / solution = inv(bordered matrix) @ bordered rhs", ctx.where(ss_f),
              "xres = inv(lhs_ls) @ rhs_ls on the bordered system", "the solution is not inv(bordered normal matrix) @ bordered rhs")
    ctx.clause("the entry stripped from the solution is the constraint's multiplier")
    sol = [e for e in sss.stores("solution") if e.base == SELF and not e.sub]
    ok = False
    for e in sol:
        v = e.value
        if v[0] == "call" and v[1] == ("m", "tolist") and v[2][0][0] == "idx" and v[2][0][2] == ("slice", T.NONE, T.num(-1), T.NONE):
            ok = True
    ctx.check(ok and len(calls) == 1, "STATE", f"{ss_f.qualname} / STATE / exactly one multiplier appended before xres[:-1]", ctx.where(ss_f),
              "one add_lagrange_multiplier on this path, one strip", "strip site / multiplier count mismatch on the lagrange_pressure path")

    ctx.clause("zero for cells touching no internal interface: the dropped columns are re-inserted as 0 at their own index")
    rc = [e for e in sb.stores("removed_columns") if e.base == SELF]
    okd = False
    if len(rc) == 1:
        v = rc[0].value
        # all-zero columns of the filled, un-deleted matrix
        if v[0] == "call" and v[1] == ("m", "tolist"):
            inner = v[2][0]
            if inner[0] == "idx" and inner[2] == T.num(0) and inner[1][0] == "call" and inner[1][1] == "numpy.nonzero":
                allc = inner[1][2][0]
                if allc[0] == "call" and allc[1] == "numpy.all" and dict(allc[3]).get("axis") == T.ZERO:
                    eq = allc[2][0]
                    okd = eq[0] == "cmp" and eq[1] == "eq" and T.ZERO in (eq[2], eq[3]) and any(x[0] == "loopres" for x in (eq[2], eq[3]))
    dele = [e for e in sb.calls() if e.fname == "numpy.delete"]
    okdel = len(dele) == 1 and rc and dele[0].args[1] == rc[0].value and dict(dele[0].kw).get("axis") == T.num(1)
    ctx.check(okd and okdel, "ALIGN", f"{bm.qualname} / ALIGN / removed_columns = all-zero columns of the un-deleted lhs; the same list drives np.delete(axis=1)", ctx.where(bm),
              "removed_columns computed before the deletion and handed to np.delete", "removed_columns / np.delete no longer agree on the dropped columns")
    ins = [e for e in sss.calls("insert")]
    okins = False
    for e in ins:
        lp = e.loops()
        if len(lp) == 1 and lp[0][2] == T.call(("m", "values"), (T.attr(SELF, "mapping_order"),)):
            b = ("bv", lp[0][1])
            okins = e.conds() == [("in", b, T.attr(SELF, "removed_columns"))] and e.args == (b, T.ZERO)
    ctx.check(okins, "ALIGN", f"{ss_f.qualname} / ALIGN / 0 re-inserted at every removed column index, in column order", ctx.where(ss_f),
              "for val in mapping_order.values(): if val in removed_columns: solution.insert(val, 0.)",
              "dropped cells are not re-inserted as 0 at their own column index")

    # ================================================================== built from the current tensions
    ctx.clause("the pressure system is assembled anew at every build (its right-hand side reads the tensions of that moment)")
    rules.fresh_build(ctx, "pressure")



_P, _G, _E = "forsys/pmatrix.py", "forsys/general_matrix.py", "forsys/edge.py"
PINNED = [
    ("get_row returns before the +-1 pair for zero tension", "forsys/pmatrix.py", "        if self.frame.cells[big_edge_cells[0]].get_area_sign() > 0:", "        if not big_edge.tension:\n            return lhs_row, 0.\n        if self.frame.cells[big_edge_cells[0]].get_area_sign() > 0:"),
    ("row columns from the sorted cell ids", _P, "        big_edge_cells = big_edge.own_cells\n", "        big_edge_cells = sorted(big_edge.own_cells)\n"),
    ("normalized curvature in the rhs", _P, "curvature = big_edge.calculate_total_curvature(normalized=False)", "curvature = big_edge.calculate_total_curvature(normalized=True)"),
    ("both entries +1 in one branch", _P, "            lhs_row[c1_position] = 1\n            lhs_row[c2_position] = -1", "            lhs_row[c1_position] = 1\n            lhs_row[c2_position] = 1"),
    ("branches identical (orientation ignored)", _P, "            lhs_row[c1_position] = -1\n            lhs_row[c2_position] = 1", "            lhs_row[c1_position] = 1\n            lhs_row[c2_position] = -1"),
    ("second column from own_cells[0]", _P, "c2_position = self.mapping_order[big_edge_cells[1]]", "c2_position = self.mapping_order[big_edge_cells[0]]"),
    ("orientation from the second cell", _P, "if self.frame.cells[big_edge_cells[0]].get_area_sign() > 0:", "if self.frame.cells[big_edge_cells[1]].get_area_sign() > 0:"),
    ("rhs uses the reference tension", _P, "rhs_value = big_edge.tension * curvature", "rhs_value = big_edge.gt * curvature"),
    ("rhs squared tension", _P, "rhs_value = big_edge.tension * curvature", "rhs_value = big_edge.tension ** 2 * curvature"),
    ("curvature exponent 1", _E, "((dx_dt**2 + dy_dt**2)**1.5)", "((dx_dt**2 + dy_dt**2)**1)"),
    ("curvature sign flipped", _E, "(d2x_dt2 * dy_dt - dx_dt * d2y_dt2)", "(dx_dt * d2y_dt2 - d2x_dt2 * dy_dt)"),
    ("trapezoid without ds", _E, "total_curvature = np.sum((curvatures[1:] + curvatures[:-1])/2 * ds)", "total_curvature = np.sum((curvatures[1:] + curvatures[:-1])/2)"),
    ("rectangle rule", _E, "total_curvature = np.sum((curvatures[1:] + curvatures[:-1])/2 * ds)", "total_curvature = np.sum(curvatures[1:] * ds)"),
    ("constraint value 1", _G, "self.add_lagrange_multiplier(lhs_matrix_ls, rhs_matrix_ls, 0.)", "self.add_lagrange_multiplier(lhs_matrix_ls, rhs_matrix_ls, 1.)"),
    ("constraint column without the closing zero", _G, "cMatrix = np.array([1.] * lhs_rows + [0.])", "cMatrix = np.array([1.] * lhs_rows + [1.])"),
    ("zero re-inserted at the end", _G, "self.solution.insert(val, 0.)", "self.solution.append(0.)"),
    ("removed columns computed after deletion", _P, "        self.removed_columns = np.nonzero(np.all(self.lhs_matrix == 0, axis=0))[0].tolist()  # list of column indices\n        if self.removed_columns:\n            self.lhs_matrix = np.delete(self.lhs_matrix, self.removed_columns, axis=1)",
     "        removed = np.nonzero(np.all(self.lhs_matrix == 0, axis=0))[0].tolist()\n        if removed:\n            self.lhs_matrix = np.delete(self.lhs_matrix, removed, axis=1)\n        self.removed_columns = np.nonzero(np.all(self.lhs_matrix == 0, axis=0))[0].tolist()"),
    ("rows from reversed interface list", _P, "for position_id, big_edge in enumerate(self.big_edges_to_use):", "for position_id, big_edge in enumerate(reversed(self.big_edges_to_use)):"),
    ("mapping_order over sorted ids", _P, "self.mapping_order = {key: enumid for enumid, key in enumerate(self.frame.cells)}", "self.mapping_order = {key: enumid for enumid, key in enumerate(sorted(self.frame.cells, reverse=True))}"),
]
PRESERVING = [
    ("trapezoid summed with the array method", _E, "total_curvature = np.sum((curvatures[1:] + curvatures[:-1])/2 * ds)", "total_curvature = ((curvatures[1:] + curvatures[:-1])/2 * ds).sum()"),
    ("arc length through np.hypot", _E, "        ds = np.sqrt(np.diff(self.xs)**2 + np.diff(self.ys)**2)\n        total_curvature", "        ds = np.hypot(np.diff(self.xs), np.diff(self.ys))\n        total_curvature"),
    ("curvature with explicit sqrt cube", _E, "((dx_dt**2 + dy_dt**2)**1.5)", "(np.sqrt(dx_dt**2 + dy_dt**2)**3)"),
    ("positional normalized=False", _P, "curvature = big_edge.calculate_total_curvature(normalized=False)", "curvature = big_edge.calculate_total_curvature(False)"),
    ("trapezoid factor as 0.5", _E, "total_curvature = np.sum((curvatures[1:] + curvatures[:-1])/2 * ds)", "total_curvature = np.sum(0.5 * ds * (curvatures[:-1] + curvatures[1:]))"),
]

"""C05 - reported tensions are the non-negative least-squares optimum with mean one (DESIGN.md section 3, C05)."""
import ast

from .. import terms as T
from .. import sym, rules
from ..model import AnalysisError

EXPLANATION = ("Shape of the mean-one augmentation (ones row over the interface columns, multiplier column over the junction rows "
               "ending in 0, last rhs entry = number of interfaces of the un-augmented matrix) as a normal-form identity for both "
               "augmenters; one system (same SSA values) handed to every back-end after a single 3-decimal rounding of b; "
               "per-back-end non-negativity mechanism (raise caught by the handler that falls back to NNLS, min=0 on every lmfit "
               "parameter, lower bound 0 for lsq_linear); typestate 'has trailing multiplier' at the strip site per selectable back-end.")

FM = "forsys.fmatrix.ForceMatrix"
SELF = T.sym("self")
M = T.attr(SELF, "matrix")
NO_BORDERS = {T.attr(SELF, "externals_to_use"): T.seq(())}


def shape(m, k):
    return T.idx(T.attr(m, "shape"), T.num(k))


def fill(c, n):
    return ("fill", T.num(c), n)


def vstack(a, b):
    return T.call("numpy.vstack", (T.seq((a, b)),))


def hstack(a, b):
    return T.call("numpy.hstack", (T.seq((a, b)),))


def run(ctx):
    repo = ctx.repo
    rules.borrow(ctx, "C10", funcs=["forsys.forsys.ForSys.solve_stress"], minimum=4, because="allow_negatives and the solver choice reach ForceMatrix.solve only if solve_stress forwards every option")
    rules.borrow(ctx, "C13", funcs=["forsys.fmatrix.ForceMatrix.set_velocity_matrix"], minimum=8, because="the right-hand side of the system that is minimised is assembled anew, from zeros, at every solve")
    ctx.config("externals_to_use=[] (hard-wired by ForSys.build_force_matrix); method in {default, 'lsq', 'lsq_linear', 'fix_stress'}; allow_negatives=False")

    # ================================================================== augmentation shape
    ctx.clause("normalisation row 'sum of tensions = number of interfaces' with a multiplier column")
    for name in ("add_mean_one", "add_mean_one_before"):
        f = repo.func(f"{FM}.{name}")
        ctx.touch(f)
        b = T.sym(f.params[1])
        s = sym.summarize(repo, f.qualname, heap=NO_BORDERS)
        ret = rules.arrnf(s.ret())
        if ret[0] != "seq" or len(ret[1]) != 2:
            raise AnalysisError(f"{name} no longer returns (matrix, rhs) - re-bind the anchor")
        if name == "add_mean_one":
            ne, nv = shape(M, 1), shape(M, 0)
            spec_m = hstack(vstack(M, fill(1, ne)), ("col", ("concat", fill(1, nv), T.seq((T.num(0),)))))
            rhs0 = b
        else:
            N = T.call("matmul", (T.call("transpose", (M,)), M))
            rhs0 = T.call("matmul", (T.call("transpose", (M,)), b))
            ne = shape(N, 1)
            spec_m = vstack(hstack(N, ("col", fill(1, ne))), ("concat", fill(1, ne), T.seq((T.num(0),))))
        spec_b = ("upd", vstack(rhs0, fill(0, shape(rhs0, 1))), T.seq((T.num(-1), T.num(-1))), ne)
        rules.decide_equal(ctx, "FORM", f"{f.qualname} / FORM / matrix bordered by a ones row and a multiplier column ending in 0", ctx.where(f),
                           ret[1][0], spec_m, "augmented matrix")
        rules.decide_equal(ctx, "FORM", f"{f.qualname} / FORM / rhs extended by one entry = number of interfaces", ctx.where(f),
                           ret[1][1], spec_b, "augmented rhs")

    # ================================================================== one system for every back-end
    sv = repo.func(f"{FM}.solve")
    ctx.touch(sv)
    ts = T.sym(sv.params[1])
    B0 = T.idx(T.call(f"{FM}.set_velocity_matrix", (SELF, ts), (("**", T.sym("**kwargs")),)), T.num(0))
    kw_name = sv.node.args.kwarg.arg if sv.node.args.kwarg else "kwargs"
    B0 = T.idx(T.call(f"{FM}.set_velocity_matrix", (SELF, ts), (("**", T.sym("**" + kw_name)),)), T.num(0))
    BACKENDS = {
        "default": (T.NONE, f"{FM}.add_mean_one"),
        "lsq": (("str", "lsq"), f"{FM}.add_mean_one"),
        "lsq_linear": (("str", "lsq_linear"), f"{FM}.add_mean_one_before"),
        "fix_stress": (("str", "fix_stress"), f"{FM}.fix_one_stress"),
    }
    AUGMENTERS = {f"{FM}.add_mean_one", f"{FM}.add_mean_one_before"}
    for bk, (mval, augname_expected) in BACKENDS.items():
        cfg = {"method": mval, "allow_negatives": T.FALSE}
        s = sym.summarize(repo, sv.qualname, config=cfg)
        where = ctx.where(sv)
        # which system builder is live under this configuration (read from the code, not from a table)
        live = [e.target for e in s.calls() if e.target in (f"{FM}.add_mean_one", f"{FM}.add_mean_one_before", f"{FM}.fix_one_stress")]
        if not live:
            raise AnalysisError(f"{where}: method {bk}: no system builder is called")
        augname = live[0]
        if len(set(live)) > 1:
            # mixed builders: take the one whose matrix reaches the back-ends; the rhs obligation below then reports the mismatch
            for e in s.calls():
                if e.fname in ("scipy.optimize.nnls", "scipy.optimize.lsq_linear", "numpy.linalg.inv") and e.args:
                    src = [x[1] for x in T.subterms(e.args[0]) if x[0] == "call" and x[1] in set(live)]
                    if src:
                        augname = src[0]
                        break
        AUG = T.call(augname, (SELF, B0))
        MP = T.call("astype", (T.idx(AUG, T.num(0)), ("mod", "numpy.float64")))
        Bv = T.call("round", (T.call(("m", "flatten"), (T.call("astype", (T.call("astype", (T.idx(AUG, T.num(1)), ("mod", "numpy.float64"))), ("mod", "numpy.float64"))),)), T.num(3)))
        Bv1 = T.call("round", (T.call(("m", "flatten"), (T.call("astype", (T.idx(AUG, T.num(1)), ("mod", "numpy.float64"))),)), T.num(3)))
        ctx.clause(f"every back-end solves the same augmented system [{bk}]")
        used = []
        for e in s.calls():
            fn = e.fname
            if fn == "scipy.optimize.lsq_linear":
                used.append(("lsq_linear", e, e.args[0] if e.args else None, e.args[1] if len(e.args) > 1 else None))
            elif fn == "scipy.optimize.nnls":
                used.append(("nnls", e, e.args[0] if e.args else None, e.args[1] if len(e.args) > 1 else None))
            elif fn == "numpy.linalg.inv":
                used.append(("inv", e, e.args[0] if e.args else None, None))
            elif fn == "lmfit.minimize":
                a = dict(e.kw).get("args")
                if a is None and len(e.args) >= 3:
                    a = e.args[2]
                used.append(("lmfit", e, T.idx(a, T.num(0)) if a else None, T.idx(a, T.num(1)) if a else None))
        if not used:
            raise AnalysisError(f"{where}: no back-end call found for method {bk}")
        for nm, e, mp, bb in used:
            okm = mp == MP
            okb = bb is None or bb in (Bv, Bv1)
            ctx.check(okm and okb, "ALIGN", f"{sv.qualname} / ALIGN / {nm} receives (augmented matrix, rounded rhs) [{bk}]", ctx.where(sv, e.node),
                      f"{nm}(astype({augname.split('.')[-1]}(b)[0]), round(flatten(...[1]), 3))",
                      f"{nm} is called with {T.show(T.alpha(mp))[:120] if mp else '?'} , {T.show(T.alpha(bb))[:160] if bb else '-'}; expected the "
                      f"single augmented system of {augname.split('.')[-1]} with b rounded once to 3 decimals")
        if bk == "default":
            # inv(mprime) @ b
            xs = [e for e in s.events if e.kind == "assign" and e.value == T.call("matmul", (T.call("numpy.linalg.inv", (MP,)), Bv))]
            xs += [e for e in s.events if e.kind == "assign" and e.value == T.call("matmul", (T.call("numpy.linalg.inv", (MP,)), Bv1))]
            ctx.check(bool(xs), "ALIGN", f"{sv.qualname} / ALIGN / exact path = inv(augmented matrix) @ rounded rhs", where,
                      "xres = inv(mprime) @ b", "the exact-inversion path does not multiply inv(augmented matrix) by the rounded rhs")

        # ------------------------------------------------------------ non-negativity mechanisms
        ctx.clause(f"with negatives disallowed no reported tension is negative [{bk}]")
        if bk == "default":
            raises = [e for e in s.events if e.kind == "raise"]
            outer = None
            for e in s.calls():
                if e.fname == "scipy.optimize.nnls":
                    ex = e.excepts()
                    if ex:
                        outer = ex[-1]
            if outer is None:
                ctx.violation("GUARD", f"{sv.qualname} / GUARD / NNLS fallback is an exception handler", where,
                              "scipy.optimize.nnls is not called from an exception handler: the fallback wiring is gone")
            else:
                tid, types = outer[1], set(outer[2])
                neg = [e for e in raises if any(c[0] == "exists" for c in e.conds())]
                sing = [e for e in raises if e.excepts() and "LinAlgError" in e.excepts()[-1][2]]
                ok_neg = False
                for e in neg:
                    xq = [c for c in e.conds() if c[0] == "exists"][0]
                    body, bvq, dom = xq[1], xq[2], xq[3]
                    strip = dom[0] == "idx" and dom[2] == ("slice", T.NONE, T.num(-1), T.NONE)
                    ok_neg = body == T.cmp("Lt", bvq, T.ZERO) and strip
                    exc_name = e.exc[1] if e.exc[0] == "call" else "?"
                    caught = any(t[0] == tid for t in e.tries) and (str(exc_name).split(".")[-1] in types or "Exception" in types)
                    ctx.check(ok_neg and caught, "GUARD", f"{sv.qualname} / GUARD / negative entry (multiplier excluded) raises into the NNLS handler", ctx.where(sv, e.node),
                              "any(x < 0 for x in xres[:-1]) and not allow_negatives -> raise ValueError, caught by except (ValueError, ...) -> nnls",
                              f"negativity test/raise is {[T.show(T.alpha(c))[:100] for c in e.conds()]} raising {exc_name}; handler catches {sorted(types)}")
                if not neg:
                    ctx.violation("GUARD", f"{sv.qualname} / GUARD / negative entry (multiplier excluded) raises into the NNLS handler", where,
                                  "with allow_negatives=False nothing rejects a negative exact solution any more")
                for e in sing:
                    exc_name = e.exc[1] if e.exc[0] == "call" else "?"
                    caught = any(t[0] == tid for t in e.tries) and str(exc_name).split(".")[-1] in types
                    ctx.check(caught, "GUARD", f"{sv.qualname} / GUARD / singular matrix raises into the NNLS handler", ctx.where(sv, e.node),
                              "LinAlgError -> ValueError('Singular matrix') -> caught -> nnls",
                              f"the singular-matrix path raises {exc_name}, which the handler {sorted(types)} does not catch")
                ctx.check({"ValueError", "LinAlgError"} <= types, "GUARD", f"{sv.qualname} / GUARD / handler catches ValueError and LinAlgError", where,
                          f"handler types {sorted(types)}", f"fallback handler only catches {sorted(types)}")
        elif bk == "lsq":
            st = [e for e in s.stores("min")]
            adds = [e for e in s.calls("add") if e.loops()]
            ok = False
            for e in st:
                if e.value == T.ZERO and e.loops() and not [c for c in e.conds() if c not in (T.cmp("NotEq", ("opt", "method", T.NONE), ("str", "lsq_linear")),)]:
                    for a in adds:
                        if a.loops()[-1][1] == e.loops()[-1][1] and e.target[0] == "attr" and e.target[1][0] == "idx" and a.args and e.target[1][2] == a.args[0]:
                            ok = True
            ctx.check(ok, "GUARD", f"{sv.qualname} / GUARD / every lmfit parameter gets min = 0", where,
                      "parameters[name].min = 0 in the loop that adds the parameter, unconditionally",
                      "not every created lmfit parameter is bounded below by 0")
            # ... and keeps it: no later store gives a parameter (the multiplier is the last one) another lower bound
            for e in st:
                if e.value != T.ZERO:
                    ctx.violation("GUARD", f"{sv.qualname} / GUARD / no lmfit parameter's lower bound is reset", ctx.where(sv, e.node),
                                  f"`{sv.module.line(e.node.lineno)}` sets the lower bound of an lmfit parameter to {T.show(e.value)[:40]} after it was bounded by 0: "
                                  "the minimisation then runs over candidates with a negative tension or a negative multiplier, which the statement excludes")
        elif bk == "lsq_linear":
            ok = False
            for nm, e, mp, bb in used:
                if nm == "lsq_linear":
                    bd = dict(e.kw).get("bounds")
                    ok = bd is not None and bd[0] == "seq" and len(bd[1]) == 2 and bd[1][0] == T.ZERO
            ctx.check(ok, "GUARD", f"{sv.qualname} / GUARD / lsq_linear lower bound 0", where, "bounds=(0, inf)",
                      "lsq_linear is not bounded below by 0")

        # ------------------------------------------------------------ typestate at the strip site
        ctx.clause(f"the value stripped from the solution is the multiplier [{bk}]")
        strips = [e for e in s.events if e.kind == "assign" and e.value[0] == "idx" and e.value[2] == ("slice", T.NONE, T.num(-1), T.NONE)
                  and e.old is not None and e.value[1] == e.old and not e.loops()]
        if not strips:
            raise AnalysisError(f"{where}: strip site xres = xres[:-1] not found")
        for e in strips:
            if augname in AUGMENTERS:
                ctx.ok("STATE", f"{sv.qualname} / STATE / strip [:-1] follows an augmentation that appends one multiplier [{bk}]", ctx.where(sv, e.node),
                       f"{augname.split('.')[-1]} appends exactly one column (FORM above)")
            else:
                fa = repo.func(augname)
                sa = sym.summarize(repo, augname, heap=NO_BORDERS)
                grows = any(x[0] == "call" and x[1] in ("numpy.hstack", "numpy.vstack", "numpy.concatenate") for x in T.subterms(sa.ret()))
                if grows:
                    raise AnalysisError(f"{ctx.where(fa)}: {augname} changed shape - re-classify it as augmenter / non-augmenter")
                ctx.violation("STATE", f"{sv.qualname} / STATE / strip [:-1] without a trailing multiplier (method='{bk}')", ctx.where(sv, e.node),
                              f"method='{bk}' builds its system with {augname.split('.')[-1]}, which appends no multiplier; solve nevertheless strips the "
                              f"last entry, i.e. drops a real tension (and the back-end does not impose mean one)")

    ctx.clause("the equations minimised are those of the last build")
    rules.fresh_build(ctx, "force")



_P = "forsys/fmatrix.py"
PINNED = [
    ("normalisation row sums to n-1", _P, "        b = np.vstack((b, np.zeros(b.shape[1])))\n        b[-1, -1] = total_edges\n\n        if total_borders != 0:\n            # cmatrix forces\n            cMatrix = np.array([0.] * total_edges + [1.] * (total_borders * 2) + [0.])\n            mprime = np.hstack((mprime, cMatrix.reshape(-1, 1)))\n            cMatrix",
     "        b = np.vstack((b, np.zeros(b.shape[1])))\n        b[-1, -1] = total_edges - 1\n\n        if total_borders != 0:\n            # cmatrix forces\n            cMatrix = np.array([0.] * total_edges + [1.] * (total_borders * 2) + [0.])\n            mprime = np.hstack((mprime, cMatrix.reshape(-1, 1)))\n            cMatrix"),
    ("ones row sized by the junction rows", _P, "        total_edges = mprime.shape[1]\n        total_vertices = mprime.shape[0]", "        total_edges = mprime.shape[0]\n        total_vertices = mprime.shape[1]"),
    ("multiplier column of zeros", _P, "cMatrix = np.array([1.] * total_vertices + [0.] * (total_borders * 2) + [0.])", "cMatrix = np.array([0.] * total_vertices + [0.] * (total_borders * 2) + [0.])"),
    ("multiplier column ends in 1", _P, "cMatrix = np.array([1.] * total_vertices + [0.] * (total_borders * 2) + [0.])", "cMatrix = np.array([1.] * total_vertices + [0.] * (total_borders * 2) + [1.])"),
    ("lmfit multiplier unbounded after the loop", _P, "                    parameters[naming].min = 0\n", "                    parameters[naming].min = 0\n                parameters[naming].min = -np.inf\n"),
    ("lmfit parameters unbounded", _P, "                    parameters[naming].min = 0\n", ""),
    ("lmfit bound only for the first parameter", _P, "                    parameters[naming].min = 0\n", "                    if index == 0:\n                        parameters[naming].min = 0\n"),
    ("lsq_linear unbounded below", _P, "bounds=(0.0, np.inf))", "bounds=(-np.inf, np.inf))"),
    ("handler no longer catches ValueError", _P, "        except (ValueError, np.linalg.LinAlgError, TypeError) as e:", "        except (np.linalg.LinAlgError, TypeError) as e:"),
    ("negativity test includes the multiplier", _P, "if np.any([x < 0 for x in xres[:-1]]) and not kwargs.get(\"allow_negatives\", True):", "if np.any([x < 0 for x in xres]) and not kwargs.get(\"allow_negatives\", True):"),
    ("negative solutions raise a RuntimeError", _P, 'raise ValueError("Negative values detected")', 'raise RuntimeError("Negative values detected")'),
    ("nnls solves the un-augmented system", _P, "xres, _ = scop.nnls(mprime, b, maxiter=kwargs.get(\"nnls_max_iter\"))", "xres, _ = scop.nnls(self.matrix, b[:-1], maxiter=kwargs.get(\"nnls_max_iter\"))"),
    ("rhs rounded to one decimal", _P, "b = b.astype(np.float64).flatten().round(3)", "b = b.astype(np.float64).flatten().round(1)"),
    ("lsq uses the normal-equation augmentation but keeps b", _P, "        elif solver_method == \"lsq\":\n            mprime, b = self.add_mean_one(b)", "        elif solver_method == \"lsq\":\n            mprime, _ = self.add_mean_one_before(b)\n            _, b = self.add_mean_one(b)"),
    ("lsq_linear: constraint row without the trailing zero", _P, "        # Now insert the two corresponding cols for the lagrange multpliers\n        cMatrix = np.concatenate((cMatrix, np.zeros(1)))", "        # Now insert the two corresponding cols for the lagrange multpliers\n        cMatrix = np.concatenate((cMatrix, np.ones(1)))"),
]
PRESERVING = [
    ("repair of F8b: the fix_stress branch removed (method falls through to the default system)", _P, """        if solver_method == "fix_stress":
            mprime, b, removed_index = self.fix_one_stress(b)
        elif solver_method == "lsq_linear":""", """        if solver_method == "lsq_linear":"""),
    ("ones row through np.ones", _P, "        cMatrix = np.array([1.] * total_edges + [0.] * (total_borders * 2))\n        mprime = np.vstack((mprime, cMatrix))", "        cMatrix = np.ones(total_edges)\n        mprime = np.vstack((mprime, cMatrix))"),
    ("handler tuple reordered", _P, "        except (ValueError, np.linalg.LinAlgError, TypeError) as e:", "        except (TypeError, ValueError, np.linalg.LinAlgError) as e:"),
]

"""C16 - angle-limit exclusion drops exactly the flagged interfaces and solves the rest (DESIGN.md section 3, C16)."""
import ast
import math

from .. import terms as T
from .. import sym, rules
from ..model import AnalysisError, Repo

EXPLANATION = ("Sibling agreement of the three copies of the exclusion predicate (both end junctions flagged), formula/guard of the "
               "flagging step (max over all pairs of arccos(dot) compared with >= to the limit, tangents from the configured fit), "
               "pointer discipline of the -1 re-insertion, the NONE rule on the solve path (value of list.insert & co. never bound), "
               "and a RANGE obligation: every default angle limit lies strictly above arccos's range [0, pi] under '>='.")

FM = "forsys.fmatrix.ForceMatrix"
SELF = T.sym("self")
IBE = T.attr(T.attr(SELF, "frame"), "internal_big_edges")


def is_deletes(t):
    return t == T.attr(SELF, "deletes") or (t[0] == "loopres" and t[1] == "self.deletes")


def excluded_formula(conds, elem):
    """conjuncts of the form  elem[0] in D, elem[-1] in D  ->  canonical ('both'|...) description"""
    found = {}
    rest = []
    for c in conds:
        if c[0] == "in" and is_deletes(c[2]) and c[1][0] == "idx" and c[1][1] == elem and c[1][2][0] == "num":
            found[int(c[1][2][1])] = True
        else:
            rest.append(c)
    return found, rest


def interface_loop(e):
    """innermost loop of the event runs over frame.internal_big_edges (canonical form of a loop over the list of their id
    lists, see sym.canon_loop) -> (position term, id list of the element)"""
    lp = e.loops()
    if not lp:
        return None
    ro = rules.roles(lp[-1])
    if ro.base == IBE and ro.kind in ("enumerate", "plain") and ro.elem is not None:
        return ro.pos, T.call("forsys.edge.BigEdge.get_vertices_ids", (ro.elem,))
    return None


def run(ctx):
    repo = ctx.repo
    rules.borrow(ctx, "C05", funcs=["forsys.fmatrix.ForceMatrix.add_mean_one", "forsys.fmatrix.ForceMatrix.add_mean_one_before"], minimum=4, because="the mean-one row counts the interfaces that remain after the exclusion")
    rules.borrow(ctx, "C10", key_parts=["forsys.fmatrix.ForceMatrix / STATE /"], minimum=0, because="the excluded junctions belong to one matrix object, not to the class")
    spec_both = {0: True, -1: True}

    # ------------------------------------------------------------ copy 1 + flagging step
    f = repo.func(f"{FM}.get_angle_limited_edges")
    ctx.touch(f)
    s = sym.summarize(repo, f.qualname)
    copies = 0
    ctx.clause("an interface is excluded exactly when both of its end junctions are flagged (three copies)")
    removes = [e for e in s.calls("remove")]
    # deletion BY POSITION inside the walk over the full list: the positions are those of the full list, but every deletion shortens the
    # list they are applied to, so from the second excluded interface on a neighbour is deleted instead
    for e in [x for x in s.events if x.kind == "del" and x.loops() and x.key is not None]:
        ro = rules.roles(e.loops()[-1])
        if ro.pos is not None and e.key == ro.pos:
            ctx.violation("ITER", f"{f.qualname} / ITER / excluded interfaces are removed by value, not by their position in the full list", ctx.where(f, e.node),
                          f"`{f.module.line(e.node.lineno)[:70].strip()}` deletes at the position the interface has in the FULL list from a list that has already been "
                          f"shortened: with two or more excluded interfaces the wrong columns disappear (or the index runs off the end)")
            copies += 1
    if not removes and not copies:
        raise AnalysisError("get_angle_limited_edges: no removal from the interface list found - re-bind the anchor")
    for e in removes:
        loc = interface_loop(e)
        where = ctx.where(f, e.node)
        # the list an interface is removed from must not be the list the enclosing loop walks: after a removal the next element
        # slides into the freed slot and is never examined (two excluded interfaces in a row leave the second one in)
        lp_ = e.loops()
        if lp_ and e.recv is not None:
            src = lp_[-1][2]
            live = e.recv
            for x in T.subterms(e.recv):
                if x[0] == "lc" and isinstance(s.loop_init.get((x[1], x[2])), tuple):
                    live = s.loop_init[(x[1], x[2])]
            if src == live or (src[0] == "call" and src[1] == "enumerate" and src[2][0] == live):
                ctx.violation("ITER", f"{f.qualname} / ITER / interfaces are removed from the list that is being walked", where,
                              f"`{f.module.line(e.node.lineno)}` removes from the very list the enclosing loop iterates: the element after each removed "
                              f"interface is skipped, so of two consecutive excluded interfaces the second keeps its column")
                copies += 1
                continue
        if loc is None:
            raise AnalysisError(f"{where}: removal is not inside a loop over the internal interfaces' id lists")
        pos, elem = loc
        found, rest = excluded_formula(e.conds(), elem)
        copies += 1
        ok = found == spec_both and not rest and e.args and e.args[0] == elem
        ctx.check(ok, "SIB", f"{f.qualname} / SIB / exclusion predicate", where,
                  "removed iff E[0] in deletes and E[-1] in deletes, and the removed element is E itself",
                  f"interface removed under {[T.show(c) for c in e.conds()]} (element {T.show(e.args[0]) if e.args else '?'}); "
                  f"the statement requires both end junctions E[0], E[-1] in deletes")
        # the list it is removed from is a copy of the frame's internal id lists
        recv = e.recv
        base = recv
        init_ok = False
        for a in s.events:
            if a.kind == "assign" and isinstance(e.node.func, ast.Attribute) and isinstance(e.node.func.value, ast.Name) \
                    and a.name == e.node.func.value.id and not a.loops():
                v = a.value
                if v[0] == "call" and v[1] in ("copy.copy", "copy.deepcopy", "list") and v[2] and v[2][0] == T.attr(T.attr(SELF, "frame"), "internal_big_edges_vertices"):
                    init_ok = True
                if v[0] == "call" and v[1] == ("m", "copy") and v[2][0] == T.attr(T.attr(SELF, "frame"), "internal_big_edges_vertices"):
                    init_ok = True
        ctx.check(init_ok, "ALIGN", f"{f.qualname} / ALIGN / unknowns start as a copy of frame.internal_big_edges_vertices", where,
                  "list of unknowns = copy of frame.internal_big_edges_vertices minus the excluded ones (order preserved)",
                  "the list the excluded interfaces are removed from is not a copy of frame.internal_big_edges_vertices")

    ctx.clause("a junction is flagged when some pair of interface directions opens by at least the limit")
    adds = [e for e in s.calls("add") if e.recv is not None and is_deletes(e.recv) or (e.kind == "call" and e.recv == T.attr(SELF, "deletes"))]
    adds = [e for e in s.events if e.kind == "call" and isinstance(e.fname, tuple) and e.fname[1] == "add" and e.recv is not None
            and (e.recv == T.attr(SELF, "deletes") or is_deletes(e.recv))]
    if not adds:
        raise AnalysisError("get_angle_limited_edges: no junction is ever added to self.deletes - re-bind the anchor")
    for e in adds:
        where = ctx.where(f, e.node)
        conds = e.conds()
        lp = e.loops()
        vid = ("bv", lp[-1][1]) if lp else None
        limit = T.attr(SELF, "angle_limit")
        good = False
        detail = [T.show(T.alpha(c))[:200] for c in conds]
        strict = False
        if len(conds) == 1 and conds[0][0] == "cmp" and conds[0][1] in ("le", "lt") and conds[0][2] == limit:
            mx = conds[0][3]
            strict = conds[0][1] == "lt"
            if mx[0] == "call" and mx[1] == "max" and len(mx[2]) == 1:
                angles = mx[2][0]
                if angles[0] == "map" and angles[4] == T.TRUE:
                    elt, b, it = angles[1], angles[2], angles[3]
                    dots = (T.call("numpy.dot", (("star", b),)), T.call("numpy.dot", (T.idx(b, T.num(0)), T.idx(b, T.num(1)))))
                    pair_ok = any(elt == T.call("numpy.arccos", (T.call("numpy.clip", (d_, T.num(-1), T.num(1))),)) for d_ in dots)
                    unclipped = any(elt == T.call("numpy.arccos", (d_,)) for d_ in dots)
                    if unclipped:
                        ctx.violation("RANGE", f"{f.qualname} / RANGE / arccos argument clipped to [-1, 1]", where,
                                      "np.arccos is applied to the raw dot product of two unit tangents; in floating point that product can be "
                                      "-1 - 1ulp for antiparallel tangents (straight-through junctions), which is outside arccos's domain and, with "
                                      "np.seterr(all='raise') set by the package, raises FloatingPointError - for every angle limit including the default "
                                      "(virtual_edges.angle_between_two_vectors clips, this copy does not)")
                        pair_ok = True
                    comb_ok = it[0] == "call" and it[1] == "itertools.combinations" and \
                        ((len(it[2]) == 2 and it[2][1] == T.num(2)) or (len(it[2]) == 1 and it[3] == (("r", T.num(2)),)))
                    vers = it[2][0] if comb_ok else None
                    vers_ok = False
                    if vers is not None and vers[0] == "map" and vers[4] == T.TRUE:
                        velt, vb, vit = vers[1], vers[2], vers[3]
                        # canonical (fused) form: one comprehension over the junction's own interface ids
                        want = T.call("forsys.edge.BigEdge.get_versor_from_vertex", (T.idx(T.attr(T.attr(SELF, "frame"), "big_edges"), vb), vid),
                                      (("fit_method", T.attr(SELF, "circle_fit_method")),))
                        own = T.attr(T.idx(T.attr(T.attr(SELF, "frame"), "vertices"), vid), "own_big_edges")
                        vers_ok = velt == want and vit == own
                    good = pair_ok and comb_ok and vers_ok
                    if not pair_ok:
                        detail.append("angle of a pair is not arccos(dot(t_a, t_b))")
                    if not comb_ok:
                        detail.append("pairs are not all 2-combinations")
                    if comb_ok and not vers_ok:
                        detail.append("directions are not get_versor_from_vertex(junction, fit_method=self.circle_fit_method) over the junction's own interfaces")
        ctx.check(good and not strict and e.args and e.args[0] == vid, "FORM", f"{f.qualname} / FORM / flag iff max pair angle >= limit", where,
                  "deletes.add(junction) iff max over all pairs of arccos(dot) >= self.angle_limit",
                  "flagging condition is " + "; ".join(detail) + ("  (strict '>' excludes the limit itself; the statement says 'at least the limit')" if strict else ""))

    # ------------------------------------------------------------ copy 2: re-insertion of -1
    f2 = repo.func(f"{FM}.get_solution_no_discarded")
    ctx.touch(f2)
    s2 = sym.summarize(repo, f2.qualname)
    ctx.clause("excluded interfaces are reported as -1 at their own position, the other values stay aligned")
    st = [e for e in s2.stores() if e.sub and e.loops()]
    minus = [e for e in st if e.value == T.num(-1)]
    keep = [e for e in st if e.value != T.num(-1)]
    if not minus or not keep:
        # a vectorised re-insertion: numpy.insert(xres, positions, -1) interprets `positions` relative to the array BEFORE insertion
        xp = T.sym(f2.params[1]) if len(f2.params) > 1 else T.sym("xres")
        ins = [x for r in s2.returns for x in T.subterms(r[1]) if x[0] == "call" and x[1] == "numpy.insert" and len(x[2]) == 3 and x[2][0] == xp and x[2][2] == T.num(-1)]
        for x in ins:
            pos = x[2][1]
            full_positions = any(y[0] == "map" and y[3][0] == "call" and y[3][1] == "enumerate" and y[1] == T.idx(y[2], T.num(0)) for y in T.subterms(pos)) \
                and not any(y[0] == "poly" for y in T.subterms(pos))
            if full_positions:
                ctx.violation("ALIGN", f"{f2.qualname} / ALIGN / -1 at the interface's own position", ctx.where(f2),
                              "numpy.insert(xres, positions, -1) is given the positions of the excluded interfaces in the FULL list, but numpy.insert "
                              "interprets indices relative to the restricted array: with two or more excluded interfaces every -1 after the first "
                              "lands too late and the values in between shift onto the wrong interfaces")
                return_after = True
        if ins and any(r.status == "violation" for r in ctx.results):
            raise AnalysisError("get_solution_no_discarded: re-insertion rewritten with numpy.insert; remaining clauses of this function not analysed")
        raise AnalysisError("get_solution_no_discarded: cannot find the -1 store and the copy store - re-bind the anchor")
    xparam = T.sym(f2.params[1]) if len(f2.params) > 1 else T.sym("xres")
    for e in minus:
        loc = interface_loop(e)
        where = ctx.where(f2, e.node)
        if loc is None:
            raise AnalysisError(f"{where}: -1 store is not inside a loop over the internal interfaces")
        pos, elem = loc
        found, rest = excluded_formula(e.conds(), elem)
        rest = [c for c in rest if not (c[0] == "cmp" and c[1] in ("ne", "eq"))]
        copies += 1
        ctx.check(found == spec_both and not rest, "SIB", f"{f2.qualname} / SIB / exclusion predicate", where,
                  "-1 written iff E[0] in deletes and E[-1] in deletes",
                  f"-1 written under {[T.show(c) for c in e.conds()]}; the statement requires both end junctions flagged")
        ctx.check(pos is not None and e.key == pos, "ALIGN", f"{f2.qualname} / ALIGN / -1 at the interface's own position", where,
                  "output index = position of the interface in frame.internal_big_edges",
                  f"-1 is written at {T.show(e.key)} instead of the interface's own position")
    for e in keep:
        loc = interface_loop(e)
        where = ctx.where(f2, e.node)
        if loc is None:
            raise AnalysisError(f"{where}: copy store is not inside a loop over the internal interfaces")
        pos, elem = loc
        ok_pos = pos is not None and e.key == pos
        v = e.value
        ptr_ok = v[0] == "idx" and v[1] == xparam and v[2][0] == "lc"
        ctx.check(ok_pos and ptr_ok, "ALIGN", f"{f2.qualname} / ALIGN / kept values copied in order", where,
                  "non-excluded position gets xres[pointer]",
                  f"non-excluded position {T.show(e.key)} gets {T.show(v)[:100]}, expected xres[running pointer] at the interface's position")
        if ptr_ok:
            pname = v[2][1]
            incs = [a for a in s2.events if a.kind == "assign" and a.name == pname and a.loops()]
            inits = [a for a in s2.events if a.kind == "assign" and a.name == pname and not a.loops()]
            good = len(incs) == 1 and incs[0].value == T.add(v[2], T.num(1)) and set(incs[0].conds()) == set(e.conds()) \
                and len(inits) == 1 and inits[0].value == T.num(0)
            ctx.check(good, "ALIGN", f"{f2.qualname} / ALIGN / pointer advances only for kept interfaces", where,
                      "pointer starts at 0 and advances by one exactly in the non-excluded branch",
                      "the pointer into the restricted solution does not start at 0 / advance by exactly one in exactly the non-excluded branch")

    # ------------------------------------------------------------ copy 3: initial condition
    f3 = repo.func(f"{FM}.get_new_initial_condition")
    ctx.touch(f3)
    s3 = sym.summarize(repo, f3.qualname)
    st = [e for e in s3.stores() if e.sub and e.loops()]
    if not st:
        raise AnalysisError("get_new_initial_condition: no stores found - re-bind the anchor")
    for e in st:
        loc = interface_loop(e)
        where = ctx.where(f3, e.node)
        if loc is None:
            raise AnalysisError(f"{where}: store is not inside a loop over the internal interfaces")
        pos, elem = loc
        found, rest = excluded_formula(e.conds(), elem)
        rest = [c for c in rest if not (c[0] == "cmp" and c[1] in ("eq", "ne") and ("sym", "what") in (c[2], c[3]))]
        copies += 1
        ctx.check(found == spec_both and not rest and e.key == pos, "SIB", f"{f3.qualname} / SIB / exclusion predicate ({T.show(e.target)[:40]})", where,
                  "initial-condition entry touched iff E[0] in deletes and E[-1] in deletes, at the interface's own position",
                  f"entry {T.show(e.key)} touched under {[T.show(c) for c in e.conds()]}; the statement requires both end junctions flagged, at the own position")
    ctx.count("SIB", "exclusion predicate copies", copies, 3)

    # ------------------------------------------------------------ NONE rule on the solve path
    ctx.clause("the lsq back-end re-inserts nothing itself: no value of a None-returning mutator is bound on the solve path")
    probe = Repo({"forsys/probe.py": b"def p():\n    xs = [1]\n    xs = xs.insert(0, 1)\n    return xs\n"})
    if len(rules.none_rule_sites(probe, probe.func("forsys.probe.p"))) != 1:
        raise AnalysisError("NONE rule self-check: the embedded positive example no longer fires")
    n = 0
    for q in sorted(repo.reachable([f"{FM}.solve"])):
        fq = repo.functions[q]
        if not q.startswith("forsys.fmatrix."):
            continue
        ctx.touch(fq)
        n += 1
        sites = rules.none_rule_sites(repo, fq)
        for node, recv, meth in sites:
            ctx.violation("NONE", f"{q} / NONE / result of {recv}.{meth}() bound", ctx.where(fq, node),
                          f"`{fq.module.line(node.lineno)}` binds the result of list.{meth}(), which is None")
        if not sites:
            ctx.ok("NONE", f"{q} / NONE / no mutator result bound", ctx.where(fq), "0 sites")
    ctx.count("NONE", "functions on the solve path scanned", n, 5)

    # ------------------------------------------------------------ defaults
    ctx.clause("with the default limit nothing is excluded")
    # comparison operator met by the limit
    strict_cmp = False
    n_def = 0

    def judge(node, fq, what):
        nonlocal n_def
        n_def += 1
        where = ctx.where(fq, node)
        d = repo.dotted(node, fq.module) if isinstance(node, (ast.Attribute, ast.Name)) else None
        val = None
        if d in ("numpy.inf", "math.inf", "numpy.Inf", "numpy.infty"):
            val = math.inf
        elif d in ("numpy.pi", "math.pi"):
            val = math.pi
        elif rules.const_value(node) is not None:
            val = float(rules.const_value(node))
        elif isinstance(node, ast.Call) and isinstance(node.func, ast.Name) and node.func.id == "float" and node.args \
                and isinstance(node.args[0], ast.Constant) and str(node.args[0].value).lower() in ("inf", "infinity"):
            val = math.inf
        elif isinstance(node, ast.BinOp):
            try:
                val = float(eval(compile(ast.Expression(node), "<default>", "eval"), {"__builtins__": {}}, {"np": math, "math": math}))
            except Exception:
                val = None
        if val is None:
            raise AnalysisError(f"{where}: default angle limit `{ast.unparse(node)}` not understood")
        ctx.check(val > math.pi, "RANGE", f"{fq.qualname} / RANGE / default angle limit {what}", where,
                  f"default {ast.unparse(node)} lies strictly above arccos's range [0, pi]",
                  f"default {ast.unparse(node)} is attainable: arccos(dot) reaches pi for antiparallel tangents and the comparison is '>='")
    fs = repo.func("forsys.forsys.ForSys.build_force_matrix")
    ctx.touch(fs)
    for c in repo.calls_in(fs):
        if isinstance(c.func, ast.Attribute) and c.func.attr == "get" and c.args and isinstance(c.args[0], ast.Constant) \
                and c.args[0].value == "angle_limit":
            if len(c.args) < 2:
                raise AnalysisError(f"{ctx.where(fs, c)}: angle_limit option has no default")
            judge(c.args[1], fs, "kwargs.get")
    for q, fq in repo.functions.items():
        dd = fq.defaults()
        if "angle_limit" in dd:
            ctx.touch(fq)
            judge(dd["angle_limit"], fq, "parameter")
    cls = repo.cls(FM)
    if "angle_limit" in cls.fields and cls.fields["angle_limit"] is not None:
        initf = repo.func(f"{FM}.__post_init__")
        judge(cls.fields["angle_limit"], initf, "dataclass field")
    ctx.count("RANGE", "angle_limit defaults", n_def, 3)
    # the wrapper hands its limit to the matrix
    ok = False
    for c in repo.calls_in(fs):
        if rules.call_name(repo, fs, c) == FM:
            k = rules.kwarg(c, "angle_limit")
            if k is not None and isinstance(k, ast.Call) and isinstance(k.func, ast.Attribute) and k.func.attr == "get":
                ok = True
            elif k is not None:
                ok = True
    ctx.check(ok, "ALIGN", "forsys.forsys.ForSys.build_force_matrix / ALIGN / angle_limit forwarded", ctx.where(fs),
              "angle_limit reaches ForceMatrix", "build_force_matrix does not forward angle_limit to ForceMatrix")

    ctx.clause("the exclusion in force is the one of the last build: the matrix is assembled anew at every build")
    rules.fresh_build(ctx, "force")



_P, _S = "forsys/fmatrix.py", "forsys/forsys.py"
PINNED = [
    ("F15 reintroduced: arccos of the unclipped dot product", _P, "\n            angles = [np.arccos(np.clip(np.dot(*combination), -1, 1)) for combination in combinations]", "\n            angles = [np.arccos(np.dot(*combination)) for combination in combinations]"),
    ("exclusion 'or' in get_angle_limited_edges", _P, "            if (big_edge[0] in self.deletes) and (big_edge[-1] in self.deletes):\n                big_edges_to_use.remove(big_edge)",
     "            if (big_edge[0] in self.deletes) or (big_edge[-1] in self.deletes):\n                big_edges_to_use.remove(big_edge)"),
    ("exclusion 'or' in get_solution_no_discarded", _P, "            if (big_edge[0] in self.deletes) and (big_edge[-1] in self.deletes):\n                xres_new[be_index] = -1",
     "            if (big_edge[0] in self.deletes) or (big_edge[-1] in self.deletes):\n                xres_new[be_index] = -1"),
    ("second end is big_edge[1] in get_new_initial_condition", _P, "            if (big_edge[0] in self.deletes) and (big_edge[-1] in self.deletes):\n                removed_indices[index] = x0[index]",
     "            if (big_edge[0] in self.deletes) and (big_edge[1] in self.deletes):\n                removed_indices[index] = x0[index]"),
    ("strict comparison with the limit", _P, "\n            if np.max(angles) >= self.angle_limit:", "\n            if np.max(angles) > self.angle_limit:"),
    ("min instead of max", _P, "\n            if np.max(angles) >= self.angle_limit:", "\n            if np.min(angles) >= self.angle_limit:"),
    ("pointer advances for every interface", _P, "                xres_new[be_index] = xres[xres_i]\n                xres_i += 1", "                xres_new[be_index] = xres[xres_i]\n            xres_i += 1"),
    ("-1 written at the pointer", _P, "xres_new[be_index] = -1", "xres_new[xres_i] = -1"),
    ("kept value read at the output index", _P, "xres_new[be_index] = xres[xres_i]", "xres_new[be_index] = xres[be_index]"),
    ("F1 reintroduced: result of list.insert bound", _P, "                xres = np.array([solution.params[name].value for name in solution.params])\n",
     "                xres = [solution.params[name].value for name in solution.params]\n                for index in removed_indices:\n                    xres = xres.insert(index, -1)\n"),
    ("F13 reintroduced: default limit pi", _S, 'kwargs.get("angle_limit", np.inf)', 'kwargs.get("angle_limit", np.pi)'),
    ("fit method not forwarded when flagging", _P, """            vertex_big_edges_versors = [big_edge.get_versor_from_vertex(vid, fit_method=self.circle_fit_method) for big_edge in vertex_big_edges]
            # Find the three angles
            # TODO: Should something be done for 4-fold junctions ?
            # if len(vertex_big_edges) == 3:
            combinations""", """            vertex_big_edges_versors = [big_edge.get_versor_from_vertex(vid) for big_edge in vertex_big_edges]
            combinations"""),
]
PRESERVING = [
    ("exclusion operands commuted", _P, "            if (big_edge[0] in self.deletes) and (big_edge[-1] in self.deletes):\n                xres_new[be_index] = -1",
     "            if big_edge[-1] in self.deletes and big_edge[0] in self.deletes:\n                xres_new[be_index] = -1"),
    ("limit on the left", _P, "\n            if np.max(angles) >= self.angle_limit:", "\n            if self.angle_limit <= np.max(angles):"),
    ("explicit pair unpacking", _P, "\n            angles = [np.arccos(np.clip(np.dot(*combination), -1, 1)) for combination in combinations]", "\n            angles = [np.arccos(np.clip(np.dot(a, b), -1, 1)) for a, b in combinations]"),
]

"""C02 - force-balance equations use outward unit tangents at the right junctions (DESIGN.md section 3, C02)."""
import ast
from fractions import Fraction

from .. import terms as T
from .. import sym, rules
from ..model import AnalysisError

EXPLANATION = ("Layout and placement of the force-balance system on evaluator terms: unknowns = end points of the used interfaces, "
               "x-/y-row pair per kept junction at offsets {0,1} of one index that advances by 2 under the same guard, keep-test on "
               "occupied columns (>=3, and <4 only under ignore_four), coefficient pair written in the column found for the SAME "
               "interface whose versor is written (x -> x-row), guard 'internal and >= 3 cells'; tangent formula J*(v-c) with c the "
               "circle centre over all points and the configured fit method, unit normalisation, orientation reference = first "
               "segment from the junction, two-point interfaces never reach the circle fit, orientation applied to the vector as a "
               "whole (COV).")

FM = "forsys.fmatrix.ForceMatrix"
BE = "forsys.edge.BigEdge"
SELF = T.sym("self")
FRAME = T.attr(SELF, "frame")
BTU = T.attr(SELF, "big_edges_to_use")
CCC = "forsys.virtual_edges.calculate_circle_center"


def is_vector(repo, t, depth=0):
    """the term denotes a sequence / array rather than a scalar"""
    k = t[0]
    if k in ("arr", "seq", "map", "concat", "flatmap"):
        return True
    if k == "call":
        fn = t[1]
        if fn in ("numpy.sign", "abs", "numpy.array", "astype", "round", "numpy.asarray") and t[2]:
            return is_vector(repo, t[2][0], depth + 1)
        if isinstance(fn, str) and fn in repo.functions and depth < 3:
            s = sym.summarize(repo, fn)
            return any(is_vector(repo, r[1], depth + 1) for r in s.returns)
        return False
    if k == "poly":
        return any(is_vector(repo, a, depth + 1) for m, c in t[1] for a, e in m)
    if k == "phi":
        return is_vector(repo, t[2], depth + 1) or is_vector(repo, t[3], depth + 1)
    return False


def run(ctx):
    repo = ctx.repo
    ctx.config("externals_to_use='none' (hard-wired by ForSys.build_force_matrix); method='edge'; ignore_four in {False, True}")

    # ================================================================== unknowns and junction set
    f = repo.func(f"{FM}.__post_init__")
    ctx.touch(f)
    s = sym.summarize(repo, f.qualname)
    ctx.clause("exactly one unknown per internal interface; equations only for end points of used interfaces")
    ext = T.attr(SELF, "externals_to_use")
    none_branch = [T.cmp("NotEq", ext, ("str", "all")), T.cmp("NotEq", ext, ("str", "ext"))]
    # decided under the configuration itself (externals_to_use bound to 'none'): the branches of the option handling fold away wherever
    # they are written (in the constructor or in a helper it calls), and exactly one assignment of the unknowns remains
    s_none = sym.summarize(repo, f.qualname, heap={ext: ("str", "none")})
    st = [e for e in s_none.stores("big_edges_to_use") if e.base == SELF]
    ok = len(st) == 1 and st[0].value == T.idx(T.call(f"{FM}.get_angle_limited_edges", (SELF,)), T.num(0))
    ctx.check(ok, "ALIGN", f"{f.qualname} / ALIGN / unknowns = get_angle_limited_edges()[0]", ctx.where(f),
              "big_edges_to_use = internal interfaces minus the angle-excluded ones (order-preserving, see C16 ALIGN)",
              "in the 'none' branch big_edges_to_use is not get_angle_limited_edges()[0]")
    adds = [e for e in s.calls("add") if e.loops()]
    args = sorted(T.show(e.args[0]) for e in adds if e.args)
    loops_ok = bool(adds) and all(len(e.loops()) == 1 for e in adds)
    elems = set()
    for e in adds:
        b = ("bv", e.loops()[0][1])
        it = e.loops()[0][2]
        elems.add((T.substitute(e.args[0], {b: ("bv", 0)}) if e.args else None))
        # the loop runs over self.big_edges_to_use (its current value)
        loops_ok = loops_ok and (it == s.heap.get(BTU) or it == BTU)
    want = {T.idx(("bv", 0), T.num(0)), T.idx(("bv", 0), T.num(-1))}
    ctx.check(loops_ok and elems == want, "FORM", f"{f.qualname} / FORM / junction candidates = first and last id of every used interface", ctx.where(f),
              "tj_vertices = {E[0], E[-1] : E in big_edges_to_use}",
              f"junction candidates are {sorted(T.show(x) for x in elems if x)} over the wrong list" if not loops_ok else
              f"junction candidates are {sorted(T.show(x) for x in elems if x)}; expected exactly E[0] and E[-1]")
    tj = [e for e in s.stores("tj_vertices") if e.base == SELF]
    mat = [e for e in s.stores("matrix") if e.base == SELF]
    ctx.check(len(mat) == 1 and mat[0].value == T.call(f"{FM}._build_matrix", (SELF,)) and tj and s.pos(tj[0]) < s.pos(mat[0]),
              "ALIGN", f"{f.qualname} / ALIGN / matrix built after the junction list", ctx.where(f),
              "self.matrix = self._build_matrix() after self.tj_vertices is set", "self.matrix is not built by _build_matrix() after tj_vertices")

    # ================================================================== row pairs
    g = repo.func(f"{FM}._build_matrix")
    ctx.touch(g)
    sg = sym.summarize(repo, g.qualname)
    ctx.clause("one x- and one y-equation per kept junction; map_vid_to_row points at the first")
    mst = [e for e in sg.stores("map_vid_to_row") if e.sub]
    rows = [e for e in sg.stores() if e.sub and e.attr and e.attr.startswith("$")]
    if len(mst) != 1 or len(rows) != 2:
        raise AnalysisError(f"_build_matrix: expected 1 map_vid_to_row store and 2 row stores, found {len(mst)} and {len(rows)}")
    m = mst[0]
    lp = m.loops()
    if len(lp) != 1:
        raise AnalysisError("_build_matrix: map_vid_to_row store is not inside exactly one loop")
    vid = ("bv", lp[0][1])
    getrow = T.call(f"{FM}.get_row", (SELF, vid))
    p = m.value
    ok_map = lp[0][2] == T.attr(SELF, "tj_vertices") and m.key == vid and p[0] == "lc"
    offs = {}
    for e in rows:
        off = T.sub(e.key, p)
        comp = e.value[2] if e.value[0] == "idx" and e.value[1] == getrow else None
        offs[T.show(off)] = T.show(comp) if comp else "?"
    same_guard = all(set(e.conds()) == set(m.conds()) for e in rows)
    ctx.check(ok_map and offs == {"0": "0", "1": "1"} and same_guard, "ALIGN", f"{g.qualname} / ALIGN / x-row at index, y-row at index+1, map -> index",
              ctx.where(g, m.node), "mat[p] = row_x, mat[p+1] = row_y, map_vid_to_row[vid] = p under one guard",
              f"row placement (offset: component of get_row) is {offs}, map entry {T.show(m.key)} -> {T.show(p)[:40]}, same guard: {same_guard}")
    incs = [e for e in sg.events if e.kind == "assign" and p[0] == "lc" and e.name == p[1] and e.loops()]
    ok_inc = len(incs) == 1 and incs[0].value == T.add(p, T.num(2)) and set(incs[0].conds()) == set(m.conds())
    inits = [e for e in sg.events if e.kind == "assign" and p[0] == "lc" and e.name == p[1] and not e.loops()]
    ctx.check(ok_inc and len(inits) == 1 and inits[0].value == T.ZERO, "ALIGN", f"{g.qualname} / ALIGN / index starts at 0 and advances by 2 with the stores",
              ctx.where(g), "position_index = 0; += 2 under the same guard as the stores",
              "the row index does not start at 0 / advance by exactly 2 under the guard of the row stores")
    # returned matrix is the populated prefix
    ret = sg.ret()
    ok_ret = ret[0] == "idx" and ret[2][0] == "slice" and ret[2][1] == T.NONE and ret[2][2] == sg.env.get(p[1]) if p[0] == "lc" else False
    ctx.check(ok_ret, "ALIGN", f"{g.qualname} / ALIGN / returns the populated rows mat[:index]", ctx.where(g),
              "return mat[:position_index]", f"returned matrix is {T.show(T.alpha(ret))[:80]}..., not the populated prefix")
    # columns sized by the list of unknowns
    init_mat = [e for e in sg.events if e.kind == "assign" and "$" + e.name == rows[0].attr and not e.loops()]
    cols_ok = False
    if init_mat:
        v = init_mat[0].value
        for x in T.subterms(v):
            if x == T.call("len", (BTU,)):
                cols_ok = True
    ctx.check(cols_ok, "ALIGN", f"{g.qualname} / ALIGN / columns = len(big_edges_to_use)", ctx.where(g),
              "matrix width derived from len(self.big_edges_to_use)", "matrix width is not derived from len(self.big_edges_to_use)")

    ctx.clause("a junction is kept iff >= 3 internal interfaces end there (exactly 3 under ignore_four)")
    rx, ry = T.idx(getrow, T.num(0)), T.idx(getrow, T.num(1))
    nz_x, nz_y = T.cmp("NotEq", rx, T.ZERO), T.cmp("NotEq", ry, T.ZERO)
    a, b = sorted([nz_x, nz_y], key=repr)
    occupancy = [T.call("numpy.count_nonzero", (T.call("bitor", (a, b)),)),
                 T.call("numpy.count_nonzero", (T.b_or(nz_x, nz_y),)),
                 T.call("numpy.count_nonzero", (T.add(T.call("abs", (rx,)), T.call("abs", (ry,))),)),
                 T.call("numpy.count_nonzero", (T.add(T.mul(rx, rx), T.mul(ry, ry)),)),
                 T.call("numpy.count_nonzero", (T.call("numpy.hypot", (rx, ry)),))]
    opt = ("opt", "self.metadata.ignore_four", T.FALSE)
    conds = set(m.conds())
    NZ = None
    for c in conds:
        for x in T.subterms(c):
            if x[0] == "ige" and x[1][0] == "call" and x[1][1] == "numpy.count_nonzero" and x[1] not in \
                    (T.call("numpy.count_nonzero", (rx,)), T.call("numpy.count_nonzero", (ry,))):
                NZ = x[1]
    where = ctx.where(g, m.node)
    if NZ is None:
        # per-component counting (the F14 defect) shows as a disjunction of component counts
        comp_counts = [x for c in conds for x in T.subterms(c) if x[0] == "ige" and x[1] in
                       (T.call("numpy.count_nonzero", (rx,)), T.call("numpy.count_nonzero", (ry,)))]
        if comp_counts:
            ctx.violation("GUARD", f"{g.qualname} / GUARD / keep-test counts occupied columns", where,
                          "the keep-test counts non-zero float components of the x- or y-row (np.count_nonzero(row)), so an interface "
                          "whose tangent has an exactly vanishing component is not counted; it must count interfaces (columns with a non-zero pair)")
        else:
            raise AnalysisError(f"{where}: keep-test of _build_matrix not understood: {[T.show(c)[:120] for c in conds]}")
    else:
        if NZ in occupancy:
            ctx.ok("GUARD", f"{g.qualname} / GUARD / keep-test counts occupied columns", where, f"count = {T.show(NZ)[:160]}")
        elif NZ in (T.call("numpy.count_nonzero", (rx,)), T.call("numpy.count_nonzero", (ry,))):
            ctx.violation("GUARD", f"{g.qualname} / GUARD / keep-test counts occupied columns", where,
                          f"the keep-test counts non-zero components of one row only ({T.show(NZ)[:120]}): value-dependent, not topological")
        else:
            # decidable sub-case: a polynomial in the two rows.  It measures 'the pair is non-zero' only if it cannot vanish while a
            # component is non-zero: a linear form a*x + b*y vanishes on a line, a product x*y on the axes.
            arg = NZ[2][0] if NZ[0] == "call" and NZ[2] else None
            bad = None
            if arg is not None and arg[0] == "poly":
                atoms = {a for m, c in arg[1] for a, e in m}
                if atoms <= {rx, ry}:
                    degs = [sum(e for a, e in m) for m, c in arg[1]]
                    if all(d == 1 for d in degs):
                        bad = "a linear combination of the x- and y-row vanishes whenever the two components cancel (e.g. an exactly anti-diagonal tangent (a, -a))"
                    elif len(arg[1]) == 1 and len(arg[1][0][0]) == 2:
                        bad = "the product of the x- and y-row vanishes whenever one component is exactly 0 (axis-parallel tangents)"
            # conjunction of the two component tests: (x != 0) & (y != 0) / logical_and - both components non-zero
            nzx, nzy = T.cmp("NotEq", rx, T.ZERO), T.cmp("NotEq", ry, T.ZERO)
            if arg is not None and arg[0] == "call" and arg[1] in ("bitand", "numpy.logical_and", "numpy.bitwise_and") and set(arg[2]) == {nzx, nzy}:
                bad = "the conjunction of the two component tests is false whenever one component is exactly 0 (axis-parallel tangents)"
            if bad:
                ctx.violation("GUARD", f"{g.qualname} / GUARD / keep-test counts occupied columns", where,
                              f"the keep-test counts non-zero entries of {T.show(T.alpha(arg))[:100]}: {bad}; it must count interfaces (columns with a non-zero pair)")
            else:
                raise AnalysisError(f"{where}: column-occupancy count not understood: {T.show(NZ)[:200]}")
        want = {T.ige(NZ, 3), T.b_or(T.b_not(opt), T.b_not(T.ige(NZ, 4)))}
        ctx.check(conds == want, "GUARD", f"{g.qualname} / GUARD / kept iff count >= 3 and (count < 4 or not ignore_four)", where,
                  "guard = (n >= 3) and (not ignore_four or n < 4)",
                  f"keep-test is {[T.show(c)[:160] for c in sorted(conds, key=repr)]}; the statement requires n >= 3, and n < 4 only when ignore_four is set (default False)")

    # ================================================================== get_row: x first
    h = repo.func(f"{FM}.get_row")
    ctx.touch(h)
    sh = sym.summarize(repo, h.qualname)
    v_ = T.sym(h.params[1]) if len(h.params) > 1 else T.sym("vid")
    eq = T.call(f"{FM}.get_vertex_equation", (SELF, v_))
    et = T.call(f"{FM}.get_external_term", (SELF, v_))
    want = T.seq((T.call("numpy.concatenate", (T.seq((T.idx(eq, T.num(0)), T.idx(et, T.num(0)))),)),
                  T.call("numpy.concatenate", (T.seq((T.idx(eq, T.num(1)), T.idx(et, T.num(1)))),))))
    # the halves are 1-D rows (np.zeros(len(...)), obligation "starts as zeros over the unknowns" below), so np.hstack, np.append and
    # np.concatenate of the pair are the same join along their only axis

    def join_1d(t):
        if t[0] == "call" and t[1] == "numpy.hstack" and len(t[2]) == 1 and t[2][0][0] == "seq":
            return ("call", "numpy.concatenate", t[2], t[3])
        if t[0] == "call" and t[1] == "numpy.append" and len(t[2]) == 2 and not t[3]:
            return ("call", "numpy.concatenate", (T.seq(t[2]),), ())
        return None
    rules.decide_equal(ctx, "ALIGN", f"{h.qualname} / ALIGN / (x-row, y-row) = equation components in order, interface columns first", ctx.where(h),
                       T.transform(sh.ret(), join_1d), want, "get_row")

    # ================================================================== coefficient placement
    q = repo.func(f"{FM}.get_vertex_equation")
    ctx.touch(q)
    sq = sym.summarize(repo, q.qualname)
    ctx.clause("the coefficient pair of an interface is written in that interface's own column, x in the x-row")
    v_ = T.sym(q.params[1]) if len(q.params) > 1 else T.sym("vid")
    vertex = T.idx(T.attr(FRAME, "vertices"), v_)
    own_list = ("map", T.idx(T.attr(FRAME, "big_edges"), ("bv", 0)), ("bv", 0), T.attr(vertex, "own_big_edges"), T.TRUE)
    st = [e for e in sq.stores() if e.sub and e.attr and e.attr.startswith("$")]
    if len(st) != 2:
        raise AnalysisError(f"get_vertex_equation: expected exactly two coefficient stores, found {len(st)}")
    comps = {}
    for e in st:
        where = ctx.where(q, e.node)
        lp = e.loops()
        if len(lp) != 1:
            raise AnalysisError(f"{where}: coefficient store not inside exactly one loop")
        # canonical form (sym.canon_loop): the loop over the junction's interfaces, however it is spelled (list built first,
        # enumerate + index, zip with the versor list), is the loop over vertex.own_big_edges with B = frame.big_edges[id]
        ro = rules.roles(lp[0])
        ok_src = ro.base == T.attr(vertex, "own_big_edges") and ro.elem is not None and ro.kind in ("plain", "enumerate")
        be = T.idx(T.attr(FRAME, "big_edges"), ro.elem) if ro.elem is not None else T.NONE
        val = e.value
        versor = T.call(f"{BE}.get_versor_from_vertex", (be, v_), (("fit_method", T.attr(SELF, "circle_fit_method")),))
        comp = val[2] if val[0] == "idx" and val[1] == versor and val[2][0] == "num" else None
        col = T.call("forsys.virtual_edges.eid_from_vertex", (BTU, T.call(f"{BE}.get_vertices_ids", (be,))))
        init = [a for a in sq.events if a.kind == "assign" and "$" + a.name == e.attr and not a.loops()]
        zero_ok = len(init) == 1 and init[0].value == T.call("numpy.zeros", (T.call("len", (BTU,)),))
        comps[e.attr] = (int(comp[1]) if comp is not None else None)
        ctx.check(ok_src and comp is not None and e.key == col, "ALIGN", f"{q.qualname} / ALIGN / {e.attr[1:]}[column of interface B] = versor of B", where,
                  "column = eid_from_vertex(big_edges_to_use, ids of B); value = B.get_versor_from_vertex(vid, fit_method=self.circle_fit_method)[k]",
                  f"coefficient store {T.show(T.alpha(e.key))[:120]} <- {T.show(T.alpha(val))[:160]} does not pair the column of an interface with that same interface's versor")
        ctx.check(zero_ok, "GUARD", f"{q.qualname} / GUARD / {e.attr[1:]} starts as zeros over the unknowns", where,
                  "np.zeros(len(self.big_edges_to_use)); no other store", f"{e.attr[1:]} is not initialised as zeros(len(big_edges_to_use))")
        need = {T.b_not(T.attr(be, "external")), T.ige(T.call("len", (T.attr(vertex, "ownCells"),)), 3)}
        ctx.check(set(e.conds()) == need, "GUARD", f"{q.qualname} / GUARD / {e.attr[1:]} written only for internal interfaces at junctions of >= 3 cells", where,
                  "guard = not B.external and len(vertex.ownCells) >= 3",
                  f"coefficient written under {[T.show(c)[:100] for c in e.conds()]}; the statement requires 'internal interface' and 'junction shared by at least three cells'")
    ret = sq.returns[-1][1] if sq.returns else T.NONE
    order = None
    if ret[0] == "seq" and len(ret[1]) == 2:
        names = []
        for x in ret[1]:
            names.append(x[1] if x[0] == "loopres" else None)
        order = [comps.get("$" + n) if n else None for n in names]
    ctx.check(order == [0, 1], "ALIGN", f"{q.qualname} / ALIGN / returns (row with versor[0], row with versor[1])", ctx.where(q),
              "first returned row carries the x components", f"returned rows carry versor components {order}, expected [0, 1]")

    # column lookup needs two shared ids
    ef = repo.func("forsys.virtual_edges.eid_from_vertex")
    ctx.touch(ef)
    se = sym.summarize(repo, ef.qualname)
    ok = False
    p0, p1 = T.sym(ef.params[0]), T.sym(ef.params[1])
    for gd, t, n in se.returns:
        lp = [x for x in gd if x[0] == "loop"]
        cs = [x for x in gd if x[0] not in ("loop", "while", "try", "except")]
        ro = rules.roles(lp[-1]) if lp else None
        if lp and ro.kind == "enumerate" and ro.base == p0 and t == ro.pos and len(cs) == 1:
            a, b = sorted([T.call("set", (ro.elem,)), T.call("set", (p1,))], key=repr)
            want = T.ige(T.call("len", (T.call("list", (T.call("bitand", (a, b)),)),)), 2)
            want2 = T.ige(T.call("len", (T.call("bitand", (a, b)),)), 2)
            ok = cs[0] in (want, want2)
    raises = [e for e in se.events if e.kind == "raise"]
    ctx.check(ok and bool(raises), "CONST", f"{ef.qualname} / CONST / column = first list sharing >= 2 ids, else BigEdgesBadlyCreated", ctx.where(ef),
              "threshold 2 shared vertex ids", "eid_from_vertex no longer returns the first position sharing at least two vertex ids (or no longer raises when none does)")

    # ================================================================== the tangent
    tv = repo.func(f"{BE}.get_vector_from_vertex")
    ctx.touch(tv)
    pnames = tv.params
    if pnames[1:] != ["vid", "method", "cell", "fit_method"]:
        # positions matter, names are taken from the source
        pass
    vidp, methodp, fitp = T.sym(pnames[1]), pnames[2], T.sym(pnames[4]) if len(pnames) > 4 else T.sym("fit_method")
    st = sym.summarize(repo, tv.qualname, bindings={methodp: ("str", "edge")})
    nverts = T.call("len", (T.attr(SELF, "vertices"),))
    ctx.clause("two-point interfaces use the line: the circle fit is never reached with fewer than three points")
    cc = [e for e in st.calls() if e.target == CCC]
    if not cc:
        raise AnalysisError("get_vector_from_vertex no longer calls calculate_circle_center - re-bind the anchor")
    for e in cc:
        ctx.check(T.ige(nverts, 3) in e.conds(), "GUARD", f"{tv.qualname} / GUARD / circle fit only with >= 3 points", ctx.where(tv, e.node),
                  "calculate_circle_center is dominated by len(self.vertices) >= 3",
                  "the circle fit is reached for two-point interfaces, where the fitted centre is the chord midpoint and J*(v-c) is perpendicular to the interface")
        # canonical argument list: method is the second parameter of calculate_circle_center, positional or by keyword
        method_arg = e.args[1] if len(e.args) > 1 else dict(e.kw).get("method")
        args_ok = e.args and e.args[0] == T.attr(SELF, "vertices") and method_arg == fitp
        ctx.check(args_ok, "FORM", f"{tv.qualname} / FORM / centre fitted over all points with the configured method", ctx.where(tv, e.node),
                  "calculate_circle_center(self.vertices, method=fit_method)",
                  f"circle centre computed as calculate_circle_center({', '.join(T.show(a) for a in e.args)}, {dict((k, T.show(v)) for k, v in e.kw)})")
    chord = T.call(f"{BE}.get_straight_edge_versor_from_vid", (SELF, vidp))
    whole = st.ret()
    short_val = rules.assume(whole, {T.b_not(T.ige(nverts, 3))})
    ok = short_val in (T.call("numpy.array", (chord,)), chord)
    ctx.check(ok, "FORM", f"{tv.qualname} / FORM / two-point interface -> chord from the junction", ctx.where(tv),
              "returns get_straight_edge_versor_from_vid(vid) for < 3 points",
              "for fewer than three points the vector is not the straight segment from the junction")

    ctx.clause("the coefficient pair is the tangent of the interface's circle at the junction: J*(v - c)")
    # the value for three or more points, however the returns are arranged (one return of a choice, or early returns)
    val = rules.assume(whole, {T.ige(nverts, 3)})
    V = T.call(f"{BE}.get_vertex_object_by_id", (SELF, vidp))
    C = T.call(CCC, (T.attr(SELF, "vertices"),), (("method", fitp),))
    raw_spec = T.arr((T.neg(T.sub(T.attr(V, "y"), T.idx(C, T.num(1)))), T.sub(T.attr(V, "x"), T.idx(C, T.num(0)))))
    where = ctx.where(tv)
    if val[0] == "phi":
        cond, corrected, raw = val[1], val[2], val[3]
        if corrected == raw_spec:                      # the choice written the other way round (`if no correction needed: return vector`)
            cond, corrected, raw = T.b_not(cond), raw, corrected
    else:
        cond, corrected, raw = None, None, val
    rules.decide_equal(ctx, "FORM", f"{tv.qualname} / FORM / tangent = (-(v.y - c.y), v.x - c.x)", where, raw, raw_spec, "vector before orientation")

    ctx.clause("the orientation is applied to the vector as a whole (rotation covariance)")
    if corrected is None:
        raise AnalysisError(f"{where}: no orientation step found in get_vector_from_vertex - re-bind the anchor")
    K = rules.extra_factor(raw, corrected, [e.value for e in st.events if e.kind == "assign"])
    if K is None:
        raise AnalysisError(f"{where}: orientation step not understood: {T.show(T.alpha(corrected))[:200]}")
    if is_vector(repo, K):
        ctx.violation("COV", f"{tv.qualname} / COV / hadamard(vector, sign-array)", where,
                      "the orientation multiplies the vector element-wise by an array of per-component signs "
                      f"({T.show(T.alpha(K))[:120]}): when chord and tangent differ in the sign of ONE component the tangent is "
                      "mirrored in a coordinate axis instead of reversed - not rotation covariant")
    else:
        ctx.ok("COV", f"{tv.qualname} / COV / whole-vector orientation", where, f"vector * scalar {T.show(T.alpha(K))[:100]}")

    ctx.clause("... pointing from the junction along the interface (reference = first segment from the junction)")
    sr = repo.func(f"{BE}.get_straight_edge_versor_from_vid")
    ctx.touch(sr)
    ss = sym.summarize(repo, sr.qualname)
    vp = T.sym(sr.params[1])
    ids = T.call(f"{BE}.get_vertices_ids", (SELF,))
    asg = [e for e in ss.events if e.kind == "assign" and e.value in (T.idx(ids, T.num(1)), T.idx(ids, T.num(-2)))]
    got = {}
    for e in asg:
        cs = e.conds()
        first, last = T.cmp("Eq", T.idx(ids, T.num(0)), vp), T.cmp("Eq", T.idx(ids, T.num(-1)), vp)
        if e.value == T.idx(ids, T.num(1)):
            got["first"] = cs == [first]
        else:
            got["last"] = last in cs and len(cs) <= 2
    ret = ss.ret()
    n0 = T.call(f"{BE}.get_vertex_object_by_id", (SELF, vp))
    ok_ret = ret[0] == "seq" and len(ret[1]) == 2
    if ok_ret:
        nxt = None
        for x in T.subterms(ret):
            if x[0] == "call" and x[1] == f"{BE}.get_vertex_object_by_id" and x[2][1] != vp:
                nxt = x
        ok_ret = nxt is not None and ret == T.seq((T.sub(T.attr(nxt, "x"), T.attr(n0, "x")), T.sub(T.attr(nxt, "y"), T.attr(n0, "y"))))
    ctx.check(got == {"first": True, "last": True} and ok_ret, "FORM", f"{sr.qualname} / FORM / reference = neighbour - junction (ids[1] from ids[0], ids[-2] from ids[-1])",
              ctx.where(sr), "(w.x - v.x, w.y - v.y), w = I[1] if v is I[0], I[-2] if v is I[-1]",
              f"orientation reference is {T.show(T.alpha(ret))[:260]} with neighbour selection {got}")
    gs = repo.func(f"{BE}.get_versor_sign")
    ctx.touch(gs)
    sgs = sym.summarize(repo, gs.qualname)
    b0 = ("bv", 0)
    want = ("map", T.phi(T.cmp("Eq", b0, T.ZERO), T.num(1), b0), b0, T.call("numpy.sign", (T.call(sr.qualname, (SELF, T.sym(gs.params[1]))),)), T.TRUE)
    rules.decide_equal(ctx, "FORM", f"{gs.qualname} / FORM / sign of the reference segment (zero -> +1)", ctx.where(gs), sgs.ret(), want, "get_versor_sign")
    uses = [e for e in st.calls() if e.target in (gs.qualname, sr.qualname)]
    if not uses:
        raise AnalysisError(f"{where}: the orientation step uses neither get_versor_sign nor get_straight_edge_versor_from_vid - re-bind the anchor")
    ctx.check(all(e.args and e.args[0] == vidp for e in uses), "ALIGN", f"{tv.qualname} / ALIGN / orientation reference taken at the same junction",
              where, "reference segment / its signs taken at vid", "the orientation reference is not taken at the junction the vector is computed for")

    ctx.clause("unit length")
    uv = repo.func(f"{BE}.get_versor_from_vertex")
    ctx.touch(uv)
    su = sym.summarize(repo, uv.qualname)
    vec = T.call(tv.qualname, (SELF,) + tuple(T.sym(p) for p in uv.params[1:]))
    want = T.div(vec, T.call("numpy.linalg.norm", (vec,)))
    same_sig = uv.params == tv.params
    ctx.check(same_sig, "ALIGN", f"{uv.qualname} / ALIGN / parameters forwarded slot by slot", ctx.where(uv),
              f"both take {uv.params[1:]}", f"get_versor_from_vertex{uv.params} and get_vector_from_vertex{tv.params} disagree on parameter slots")
    rules.decide_equal(ctx, "FORM", f"{uv.qualname} / FORM / versor = vector / |vector|", ctx.where(uv), su.ret(), want, "versor")

    # ================================================================== the circle centre uses all points
    ctx.clause("the circle is fitted through all points of the interface")
    cf = repo.func(CCC)
    ctx.touch(cf)
    scf = sym.summarize(repo, cf.qualname)
    vparam = T.sym(cf.params[0])
    b0 = ("bv", 0)
    xs = ("map", T.attr(b0, "x"), b0, vparam, T.TRUE)
    ys = ("map", T.attr(b0, "y"), b0, vparam, T.TRUE)
    fits = [e for e in scf.calls() if e.target == "forsys.virtual_edges.dlite_circle_method" or e.fname == "circle_fit.taubinSVD"]
    ok = bool(fits)
    bad = ""
    for e in fits:
        if e.target:
            if not (len(e.args) == 2 and T.alpha(e.args[0]) == T.alpha(xs) and T.alpha(e.args[1]) == T.alpha(ys)):
                ok, bad = False, f"dlite_circle_method({', '.join(T.show(T.alpha(a))[:60] for a in e.args)})"
        else:
            z = T.call("list", (T.call("zip", (xs, ys)),))
            if not (len(e.args) == 1 and T.alpha(e.args[0]) == T.alpha(z)):
                ok, bad = False, f"taubinSVD({', '.join(T.show(T.alpha(a))[:80] for a in e.args)})"
            if T.ige(T.call("len", (e.args[0],)), 3) not in e.conds():
                ok, bad = False, "taubinSVD reached with fewer than three points"
    ctx.check(ok, "FORM", f"{cf.qualname} / FORM / fit receives x and y of every vertex, in that order", ctx.where(cf),
              "xs = [v.x for v in vertices], ys = [v.y for v in vertices] handed to the fit", f"circle fit called as {bad}")
    ctx.count("FORM", "circle-fit call sites in calculate_circle_center", len(fits), 2)
    # the returned pair, branch by branch, is (F[0], F[1]) of one and the same fit F (or the two coordinate means of the fallback)
    ret = scf.ret()
    bad_pairs = []

    centroid_paths = []
    path = []

    def pairwise(x, y):
        if x[0] == "phi" and y[0] == "phi" and x[1] == y[1]:
            path.append(x[1])
            pairwise(x[2], y[2])
            path[-1] = T.b_not(x[1])
            pairwise(x[3], y[3])
            path.pop()
        elif x[0] == "idx" and y[0] == "idx" and x[1] == y[1] and x[2] == T.num(0) and y[2] == T.num(1):
            pass
        elif T.alpha(x) == T.alpha(T.call("mean", (xs,))) and T.alpha(y) == T.alpha(T.call("mean", (ys,))):
            centroid_paths.append(tuple(path))
        else:
            bad_pairs.append((T.show(T.alpha(x))[:80], T.show(T.alpha(y))[:80]))
    def walk_ret(t):
        # a pair of choices, or a choice between pairs (early returns): the same pairs either way
        if t[0] == "phi":
            path.append(t[1])
            walk_ret(t[2])
            path[-1] = T.b_not(t[1])
            walk_ret(t[3])
            path.pop()
        elif t[0] == "seq" and len(t[1]) == 2:
            pairwise(t[1][0], t[1][1])
        else:
            raise AnalysisError(f"{ctx.where(cf)}: return shape of calculate_circle_center not understood: {T.show(T.alpha(t))[:160]}")
    walk_ret(ret)
    # the centroid is the answer for an unknown method only: under 'dlite' and 'taubinSVD' (its fallback included) the centre is a circle fit
    mparam = T.sym(cf.params[1]) if len(cf.params) > 1 else T.sym("method")
    for pth in centroid_paths:
        conj = [c for p_ in pth for c in T.conjuncts(p_)]
        fit_method = [m_ for m_ in ("dlite", "taubinSVD") if T.cmp("Eq", mparam, ("str", m_)) in conj]
        if fit_method:
            ctx.violation("FORM", f"{cf.qualname} / FORM / under a circle-fit method the centre is a circle fit on every path", ctx.where(cf),
                          f"with method='{fit_method[0]}' one path ({[T.show(c)[:50] for c in conj]}) returns the centroid of the points instead of a fitted centre: "
                          f"the centroid of an arc lies inside the chord, so the 'tangent' J*(v - c) comes out nearly normal to the interface")
    ctx.check(not bad_pairs, "FORM", f"{cf.qualname} / FORM / returns (centre[0], centre[1]) of one fit", ctx.where(cf),
              "x and y of the same fitted centre", f"returned centre pairs {bad_pairs[:2]}")

    # ================================================================== the system solved is the one built by this call
    ctx.clause("the matrix of a frame is assembled anew at every build, with the caller's own options (no state from earlier calls)")
    rules.fresh_build(ctx, "force")
    rules.no_mutated_defaults(ctx, ["forsys.forsys.ForSys.build_force_matrix"])



_P, _E, _V = "forsys/fmatrix.py", "forsys/edge.py", "forsys/virtual_edges.py"
PINNED = [
    ("keep-test on the sum of the rows", _P, "non_zero = np.count_nonzero((row_x != 0) | (row_y != 0))", "non_zero = np.count_nonzero(row_x + row_y)"),
    ("keep-test on the product of the rows", _P, "non_zero = np.count_nonzero((row_x != 0) | (row_y != 0))", "non_zero = np.count_nonzero(row_x * row_y)"),
    ("versor components swapped in the rows", _P, "                    arrx[pos] = versor[0]\n                    arry[pos] = versor[1]", "                    arrx[pos] = versor[1]\n                    arry[pos] = versor[0]"),
    ("column looked up with another interface", _P, "pos = ve.eid_from_vertex(self.big_edges_to_use, big_edge.get_vertices_ids())", "pos = ve.eid_from_vertex(self.big_edges_to_use, vertex_big_edges[0].get_vertices_ids())"),
    ("column searched in the frame's list instead of the used list", _P, "pos = ve.eid_from_vertex(self.big_edges_to_use, big_edge.get_vertices_ids())", "pos = ve.eid_from_vertex(self.frame.internal_big_edges_vertices, big_edge.get_vertices_ids())"),
    ("versor of the neighbouring interface", _P, "versor = vertex_big_edges_versors[index]", "versor = vertex_big_edges_versors[index - 1]"),
    ("junction threshold > 3 cells", _P, "if not big_edge.external and len(vertex.ownCells) > 2:", "if not big_edge.external and len(vertex.ownCells) > 3:"),
    ("external interfaces get coefficients", _P, "if not big_edge.external and len(vertex.ownCells) > 2:", "if len(vertex.ownCells) > 2:"),
    ("fit method not forwarded to the versor", _P, """        vertex_big_edges_versors = [big_edge.get_versor_from_vertex(vid, fit_method=self.circle_fit_method) for big_edge in vertex_big_edges]
        # Find the three angles
        # TODO: Should something be done for 4-fold junctions ?
        # if len(vertex_big_edges) == 3:
        #     combinations""", """        vertex_big_edges_versors = [big_edge.get_versor_from_vertex(vid) for big_edge in vertex_big_edges]
        #     combinations"""),
    ("y-row stored two rows below", _P, "mat[position_index + 1] = row_y", "mat[position_index + 2] = row_y"),
    ("index advances by one", _P, "                position_index += 2", "                position_index += 1"),
    ("map points at the y-row", _P, "self.map_vid_to_row[vid] = position_index\n", "self.map_vid_to_row[vid] = position_index + 1\n"),
    ("ignore_four on by default", _P, 'self.metadata.get("ignore_four", False)', 'self.metadata.get("ignore_four", True)'),
    ("keep junctions with two interfaces", _P, "at_least_three = non_zero >= 3", "at_least_three = non_zero >= 2"),
    ("F14 reintroduced: keep-test on components", _P, """            non_zero = np.count_nonzero((row_x != 0) | (row_y != 0))
            at_least_three = non_zero >= 3
            less_than_four = non_zero < 4""", """            non_zero_x = np.count_nonzero(row_x)
            non_zero_y = np.count_nonzero(row_y)
            at_least_three = non_zero_x >= 3 or non_zero_y >= 3
            less_than_four = non_zero_x < 4 and non_zero_y < 4"""),
    ("only last ids become junction candidates", _P, "            tj_vertices.add(big_edge[0])\n", ""),
    ("tangent without the minus sign", _E, "vector = np.array((- (vobject.y - yc), (vobject.x - xc)))", "vector = np.array(((vobject.y - yc), (vobject.x - xc)))"),
    ("radius instead of tangent", _E, "vector = np.array((- (vobject.y - yc), (vobject.x - xc)))", "vector = np.array(((vobject.x - xc), (vobject.y - yc)))"),
    ("centre components swapped", _E, "xc, yc = ve.calculate_circle_center(self.vertices, method=fit_method)", "yc, xc = ve.calculate_circle_center(self.vertices, method=fit_method)"),
    ("fit over the interior points only", _E, "xc, yc = ve.calculate_circle_center(self.vertices, method=fit_method)", "xc, yc = ve.calculate_circle_center(self.vertices[1:-1], method=fit_method)"),
    ("fit method ignored", _E, "xc, yc = ve.calculate_circle_center(self.vertices, method=fit_method)", "xc, yc = ve.calculate_circle_center(self.vertices)"),
    ("F7 reintroduced: two-point interfaces reach the circle fit", _E, """        if method == "edge" and len(self.vertices) < 3:
            # a circle through two points is not unique: use the straight line
            return np.array(self.get_straight_edge_versor_from_vid(vid))
""", ""),
    ("versor not normalised", _E, "versor = vector / np.linalg.norm(vector)", "versor = vector"),
    ("reference from the far end", _E, "            next_vid = all_vertices_ids[1]\n", "            next_vid = all_vertices_ids[-1]\n"),
    ("reference reversed", _E, "return [v1.x - v0.x, v1.y - v0.y]", "return [v0.x - v1.x, v0.y - v1.y]"),
    ("zero sign mapped to -1", _E, "return [1.0 if sign == 0 else sign for sign in signs]", "return [-1.0 if sign == 0 else sign for sign in signs]"),
    ("column found with one shared id", _V, "if len(list(set(earr[j]) & set(vbel))) >= 2:", "if len(list(set(earr[j]) & set(vbel))) >= 1:"),
    ("dlite fit gets (ys, xs)", _V, '        if method == "dlite":\n            center = dlite_circle_method(xs, ys)', '        if method == "dlite":\n            center = dlite_circle_method(ys, xs)'),
    ("centre returned as (y, x)", _V, "return center[0], center[1]", "return center[1], center[0]"),
]
PRESERVING = [
    ("repair of F6: whole-vector orientation by the sign of the projection on the chord", _E, """        correct_sign = self.get_versor_sign(vid)
        if np.any(np.sign(vector) != correct_sign):
            correction = correct_sign * np.sign(vector)
            vector = vector * correction
        return vector""", """        chord = np.array(self.get_straight_edge_versor_from_vid(vid))
        if np.dot(vector, chord) < 0:
            vector = -vector
        return vector"""),
    ("keep-test with abs sums", _P, "non_zero = np.count_nonzero((row_x != 0) | (row_y != 0))", "non_zero = np.count_nonzero(np.abs(row_x) + np.abs(row_y))"),
    ("tangent with distributed minus", _E, "vector = np.array((- (vobject.y - yc), (vobject.x - xc)))", "vector = np.array((yc - vobject.y, vobject.x - xc))"),
    ("versor in two steps", _E, "versor = vector / np.linalg.norm(vector)", "length = np.linalg.norm(vector)\n        versor = vector / length"),
    ("threshold spelled >= 3", _P, "if not big_edge.external and len(vertex.ownCells) > 2:", "if len(vertex.ownCells) >= 3 and not big_edge.external:"),
]

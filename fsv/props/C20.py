"""C20 - cell geometry primitives: signed area, perimeter, orientation, neighbours (DESIGN.md section 3, C20)."""
from fractions import Fraction

from .. import terms as T
from .. import sym, cyclic, rules
from ..model import AnalysisError

EXPLANATION = ("Formula identity by algebraic value numbering: Cell.get_area is normalised to a cyclic sum and compared with "
               "the shoelace formula 1/2*SUM_i(x_i*y_(i-1) - y_i*x_(i-1)) (sign convention, reversal, shift and translation "
               "behaviour are algebraic corollaries, DESIGN.md appendix); perimeter summand, next/previous antisymmetry, "
               "area-sign definition, neighbour set and homogeneity degrees 2 / 1 are checked on normal forms.")

CELL = "forsys.cell.Cell"
INLINE = {"forsys.vertex.Vertex.get_coords", "forsys.cell.Cell.get_cell_vertices"}
SELF = T.sym("self")


def X(k):
    return T.attr(cyclic.AT(k), "x")


def Y(k):
    return T.attr(cyclic.AT(k), "y")


def coord_seed(t):
    if t[0] == "attr" and t[2] in ("x", "y"):
        return rules.Dim({"L": Fraction(1)})
    return None


def run(ctx):
    repo = ctx.repo
    half = T.num(Fraction(1, 2))

    # ---- area: shoelace formula
    ctx.clause("area is the shoelace area of the vertex cycle (negative for CCW in a y-up frame)")
    f = repo.func(f"{CELL}.get_area")
    ctx.touch(f)
    s = sym.summarize(repo, f.qualname, inline=INLINE)
    cs = cyclic.to_csum(s.ret())
    where = ctx.where(f)
    if cs is None:
        if rules.opaque_parts(s.ret()):
            raise AnalysisError(f"{where}: area value not normalisable to a cyclic sum")
        # fully normalised but not a cyclic sum over the cycle at all
        ctx.violation("FORM", f"{f.qualname} / FORM / shoelace", where,
                      f"area is {T.show(T.alpha(s.ret()))[:300]}, not a cyclic sum over the vertex cycle")
    else:
        it, summand = cs
        spec = cyclic.normalise(T.mul(half, T.sub(T.mul(X(0), Y(-1)), T.mul(Y(0), X(-1)))))
        ctx.check(it == T.attr(SELF, "vertices"), "FORM", f"{f.qualname} / FORM / shoelace domain", where,
                  "cyclic sum ranges over self.vertices", f"cyclic sum ranges over {T.show(it)} instead of self.vertices")
        rules.decide_equal(ctx, "FORM", f"{f.qualname} / FORM / shoelace", where, summand, spec, "summand of the cyclic sum")
        # degree 2 in a length factor
        ctx.clause("area scales with the square of a length factor")
        try:
            d = rules.DimTyper(coord_seed, rules.BASIC_DIM_CALLS).dim(summand)
            ctx.check(d == rules.Dim({"L": Fraction(2)}) , "DIM", f"{f.qualname} / DIM / degree 2", where,
                      f"every monomial has degree {d} in the coordinates", f"area summand has dimension {d}, expected L^2")
        except rules.Inhomogeneous as e:
            ctx.violation("DIM", f"{f.qualname} / DIM / degree 2", where, f"area summand is not homogeneous: {e}")

    # ---- area sign
    ctx.clause("orientation sign is the sign of the shoelace area")
    f = repo.func(f"{CELL}.get_area_sign")
    ctx.touch(f)
    s = sym.summarize(repo, f.qualname, inline=INLINE)
    area_call = T.call(f"{CELL}.get_area", (SELF,))
    spec = T.call("int", (T.call("numpy.sign", (area_call,)),))
    code = s.ret()
    if code == T.call("numpy.sign", (area_call,)):      # same value without the int() conversion
        code = spec
    # the sign of an area is scale free (degree 0 of a degree-2 quantity); a tolerance test against an absolute constant is not:
    # np.isclose(area, 0) is |area| <= 1e-8, an L^2 quantity compared with a pure number
    tol = [e for e in s.calls() if e.fname in ("numpy.isclose", "numpy.allclose", "numpy.round", "round", "numpy.around")
           and e.args and any(x == area_call or (x[0] == "call" and x[1] == f"{CELL}.get_area") for a_ in e.args for x in T.subterms(a_))]
    for e in tol:
        ctx.violation("DIM", f"{f.qualname} / DIM / the orientation is decided by an exact comparison with 0", ctx.where(f, e.node),
                      f"`{f.module.line(e.node.lineno)[:70]}` applies an absolute tolerance (or a rounding) to the area, a quantity of dimension length^2: cells whose area is "
                      f"below the tolerance in the chosen unit of length (1e-8 by default) lose their orientation, and with it next / previous vertex and the perimeter")
    if not tol:
        ctx.ok("DIM", f"{f.qualname} / DIM / the orientation is decided by an exact comparison with 0", ctx.where(f), "no tolerance or rounding is applied to the area")
    rules.decide_equal(ctx, "FORM", f"{f.qualname} / FORM / sign(area)", ctx.where(f), code, spec, "area sign")

    # ---- perimeter
    ctx.clause("perimeter is the length of the closed cycle")
    f = repo.func(f"{CELL}.get_perimeter")
    ctx.touch(f)
    s = sym.summarize(repo, f.qualname, inline=INLINE)
    bv = ("bv", 0)
    nxt = T.call(f"{CELL}.get_next_vertex", (SELF, bv))
    dx = T.sub(T.attr(bv, "x"), T.attr(nxt, "x"))
    dy = T.sub(T.attr(bv, "y"), T.attr(nxt, "y"))
    summand = T.sqrt(T.add(T.mul(dx, dx), T.mul(dy, dy)))
    spec = ("sum", summand, bv, T.attr(SELF, "vertices"), T.TRUE)
    rules.decide_equal(ctx, "FORM", f"{f.qualname} / FORM / closed polyline length", ctx.where(f), s.ret(), spec, "perimeter")
    ctx.clause("perimeter scales with the first power of a length factor")
    code = s.ret()
    if code[0] == "sum":
        try:
            d = rules.DimTyper(coord_seed, rules.BASIC_DIM_CALLS).dim(code[1])
            ctx.check(d == rules.Dim({"L": Fraction(1)}), "DIM", f"{f.qualname} / DIM / degree 1", ctx.where(f),
                      f"summand has dimension {d}", f"perimeter summand has dimension {d}, expected L")
        except rules.Inhomogeneous as e:
            ctx.violation("DIM", f"{f.qualname} / DIM / degree 1", ctx.where(f), f"perimeter summand is not homogeneous: {e}")

    # ---- navigation
    ctx.clause("next/previous navigation walks the cycle in the sense given by the area sign")
    sgn = T.call(f"{CELL}.get_area_sign", (SELF,))
    verts = T.attr(SELF, "vertices")
    v = T.sym("v")
    for name, sign in (("get_next_vertex", 1), ("get_previous_vertex", -1)):
        f = repo.func(f"{CELL}.{name}")
        ctx.touch(f)
        pname = f.params[1] if len(f.params) > 1 else "v"
        s = sym.summarize(repo, f.qualname, inline=INLINE)
        pos = T.call(("m", "index"), (verts, T.sym(pname)))
        step = T.add(pos, T.mul(T.num(sign), sgn))
        spec = T.idx(verts, T.call("mod", (step, T.call("len", (verts,)))))
        rules.decide_equal(ctx, "SIB", f"{f.qualname} / SIB / index {'+' if sign > 0 else '-'} area sign (mod len)",
                           ctx.where(f), s.ret(), spec, name)

    # ---- neighbours
    ctx.clause("a cell's neighbours are exactly the other cells sharing a vertex with it")
    f = repo.func(f"{CELL}.calculate_neighbors")
    ctx.touch(f)
    s = sym.summarize(repo, f.qualname, inline=INLINE)
    where = ctx.where(f)
    # the answer must be computed from the mesh as it is now: a path that hands back what an earlier call stored (self.neighbors) is a
    # cache that nothing invalidates when cells are removed or vertices merged
    stale_leaves = []

    def leaves(t, path=()):
        if t[0] == "phi":
            leaves(t[2], path + (t[1],))
            leaves(t[3], path + (T.b_not(t[1]),))
        elif t == T.attr(SELF, "neighbors"):
            stale_leaves.append(path)
    leaves(s.ret())
    if stale_leaves:
        ctx.violation("STATE", f"{f.qualname} / STATE / neighbours are recomputed on every call", where,
                      f"under {[T.show(c)[:60] for c in stale_leaves[0]]} calculate_neighbors returns the list stored by an earlier call: after a cell is removed (ForSys.remove_cell "
                      f"rebuilds the Frame around the same Cell objects) the removed cell is still reported as a neighbour")
    nf = rules.setnf(s.ret())
    if nf is None:
        raise AnalysisError(f"{where}: neighbour set not in the finite-set fragment: {T.show(s.ret())[:200]}")
    gens, removed = nf
    b = ("bv", 0)
    want_gen = ("for", T.alpha(("b", ("all", T.attr(b, "ownCells")), b, verts, T.TRUE)))
    # positively wrong: the same union, but over a FILTERED cycle - a filter on the vertices can only lose neighbours
    filtered = [g_ for g_ in gens if g_[0] == "for" and g_[1][0] == "b" and g_[1][1] == want_gen[1][1] and g_[1][3] == want_gen[1][3] and g_[1][4] != T.TRUE]
    if filtered and gens != frozenset({want_gen}):
        ctx.violation("FORM", f"{f.qualname} / FORM / union of ownCells over the cycle", where,
                      f"neighbour candidates are collected only from the vertices satisfying {T.show(filtered[0][1][4])[:80]}: a neighbour that shares only other vertices with "
                      f"the cell (e.g. an edge between two border vertices) is lost")
    else:
        ctx.check(gens == frozenset({want_gen}), "FORM", f"{f.qualname} / FORM / union of ownCells over the cycle", where,
                  "neighbour candidates = union of v.ownCells for v in self.vertices",
                  f"neighbour candidates are {sorted(map(str, gens))[:3]}, expected the union of v.ownCells over self.vertices")
    ctx.check(removed == frozenset({T.attr(SELF, "id")}), "FORM", f"{f.qualname} / FORM / minus the cell itself", where,
              "exactly self.id is removed", f"removed elements are {[T.show(x) for x in removed]}, expected exactly self.id")
    st = [e for e in s.stores("neighbors") if e.base == SELF]
    def phi_leaves(t):
        return phi_leaves(t[2]) + phi_leaves(t[3]) if t[0] == "phi" else [t]
    ret_leaves = phi_leaves(s.ret())
    # (a store of a conditional value is recorded as one guarded store per branch)
    ctx.check(bool(st) and all(e.value == s.ret() or e.value in ret_leaves for e in st), "FORM", f"{f.qualname} / FORM / stored == returned", where,
              "self.neighbors holds the returned set", "self.neighbors does not hold the returned neighbour set")


_P = "forsys/cell.py"
PINNED = [
    ("area: roll in the other direction (sign flips)", _P, "np.dot(x, np.roll(y,1))", "np.dot(x, np.roll(y,-1))"),
    ("area: operands swapped (sign flips)", _P, "0.5 * (np.dot(x, np.roll(y,1)) - np.dot(y, np.roll(x, 1)))",
     "0.5 * (np.dot(y, np.roll(x, 1)) - np.dot(x, np.roll(y,1)))"),
    ("area: factor 1/2 dropped", _P, "return 0.5 * (np.dot(x,", "return (np.dot(x,"),
    ("area sign negated", _P, "int(np.sign(self.get_area()))", "int(np.sign(-self.get_area()))"),
    ("perimeter: y difference to the previous vertex", _P, "diffy = i.y - self.get_next_vertex(i).y", "diffy = i.y - self.get_previous_vertex(i).y"),
    ("perimeter: square root dropped", _P, "perimeter +=  np.sqrt(diffx**2 + diffy**2)", "perimeter +=  (diffx**2 + diffy**2)"),
    ("next vertex walks against the area sign", _P, "(self.vertices.index(v) + self.get_area_sign()) % len(self.vertices)",
     "(self.vertices.index(v) - self.get_area_sign()) % len(self.vertices)"),
    ("neighbours keep the cell itself", _P, "        current_cells.remove(self.id)\n", ""),
    ("neighbours from ownEdges", _P, "for cell_id in vertex.ownCells]", "for cell_id in vertex.ownEdges]"),
    ("get_coords returns (y, x)", "forsys/vertex.py", "return [self.x, self.y]", "return [self.y, self.x]"),
]
PRESERVING = [
    ("perimeter through np.hypot", _P, "perimeter +=  np.sqrt(diffx**2 + diffy**2)", "perimeter +=  np.hypot(diffx, diffy)"),
    ("area: coordinates read directly", _P, "x = [i.get_coords()[0] for i in self.vertices]", "x = [i.x for i in self.vertices]"),
    ("area: sum of elementwise products", _P, "0.5 * (np.dot(x, np.roll(y,1)) - np.dot(y, np.roll(x, 1)))",
     "0.5 * (np.sum(np.array(x) * np.roll(y, 1)) - np.sum(np.array(y) * np.roll(x, 1)))"),
    ("area: shifted the other sequence", _P, "0.5 * (np.dot(x, np.roll(y,1)) - np.dot(y, np.roll(x, 1)))",
     "0.5 * (np.dot(np.roll(x, -1), y) - np.dot(np.roll(y, -1), x))"),
    ("perimeter: difference reversed", _P, "diffx = i.x - self.get_next_vertex(i).x", "diffx = self.get_next_vertex(i).x - i.x"),
    ("next vertex: operands commuted", _P, "(self.vertices.index(v) + self.get_area_sign()) % len(self.vertices)",
     "(self.get_area_sign() + self.vertices.index(v)) % len(self.vertices)"),
    ("neighbours: set comprehension", _P, """        current_cells = set()
        for vertex in self.vertices:
            [current_cells.add(cell_id) for cell_id in vertex.ownCells]
        current_cells = list(current_cells)
""", """        current_cells = set()
        for vertex in self.vertices:
            for cell_id in vertex.ownCells:
                current_cells.add(cell_id)
        current_cells = list(current_cells)
"""),
]

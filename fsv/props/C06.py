"""C06 - inference is invariant under similarity transforms and changes of units (DESIGN.md section 3, C06)."""
import ast
from fractions import Fraction

from .. import terms as T
from .. import sym, rules, cyclic
from ..model import AnalysisError

EXPLANATION = ("Units-of-measure typing (dimension exponents over L, T, Lambda) and affine typing (symbolic translation of every position / "
               "time stamp, exact on polynomial normal forms) of every quantity that enters the force-balance system, the velocity term and "
               "the pressure right-hand side: matrix entries are L^0 and translation invariant, velocities L*T^-1 with space- and time-weight "
               "0, the adimensional rhs L^0*T^0, curvature L^-1 and total turning L^0, the pressure rhs Lambda*L^0; a rounding on the "
               "inference path is only allowed on the dimensionless velocity term (3 decimals) or on diagnostics; rotation: covariance kind "
               "of the orientation step (shared with C02).")

BE = "forsys.edge.BigEdge"
FM = "forsys.fmatrix.ForceMatrix"
TS = "forsys.time_series.TimeSeries"
SELF = T.sym("self")
L = rules.Dim({"L": Fraction(1)})
ONE_D = rules.Dim()
CCC = "forsys.virtual_edges.calculate_circle_center"


def dim_seed(t):
    if t[0] == "attr" and t[2] in ("x", "y", "xs", "ys", "center_x", "center_y", "maxcoord"):
        return L
    if t[0] == "attr" and t[2] == "time":
        return rules.Dim({"T": Fraction(1)})
    if t[0] == "attr" and t[2] in ("tension", "pressure", "gt", "gt_pressure"):
        return rules.Dim({"S": Fraction(1)})
    if t[0] == "call" and t[1] == CCC:
        return L
    if t[0] == "sym":
        return ONE_D
    if t[0] == "attr" and t[1][0] == "call" and t[1][1] in ("numpy.finfo", "numpy.iinfo"):
        return ONE_D            # machine constants are pure numbers
    return None


def space_seed(t):
    if t[0] == "attr" and t[1][0] == "call" and t[1][1] in ("numpy.finfo", "numpy.iinfo"):
        return T.ZERO
    if t[0] == "attr" and t[2] in ("x", "y", "xs", "ys", "center_x", "center_y"):
        return T.ONE
    if t[0] == "idx" and t[1][0] == "call" and t[1][1] == CCC:
        return T.ONE        # a fitted centre is a point of the plane (trusted transfer)
    return None


def time_seed(t):
    if t[0] == "attr" and t[1][0] == "call" and t[1][1] in ("numpy.finfo", "numpy.iinfo"):
        return T.ZERO
    if t[0] == "attr" and t[2] == "time":
        return T.ONE
    return None


REPO_DIM = {
    f"{BE}.get_vertex_object_by_id": None,     # an object; its coordinates are seeded by attribute
    f"{TS}.get_point_id_by_map": lambda self_, t: ONE_D,
    f"{BE}.get_versor_sign": lambda self_, t: ONE_D,
    f"{BE}.get_vertices_ids": lambda self_, t: ONE_D,
}


def typers():
    dcalls = dict(rules.BASIC_DIM_CALLS)
    for k, v in REPO_DIM.items():
        if v is not None:
            dcalls[k] = v
    acalls = dict(rules.BASIC_AFF_CALLS)
    for k in (f"{TS}.get_point_id_by_map", f"{BE}.get_versor_sign", f"{BE}.get_vertices_ids", f"{BE}.get_vertex_object_by_id"):
        acalls[k] = "zero"
    acalls[CCC] = "same"      # only reached by the time typer (the space typer seeds the centre as a point)
    return rules.DimTyper(dim_seed, dcalls), rules.AffTyper(space_seed, acalls), rules.AffTyper(time_seed, acalls)


def judge(ctx, f, what, term, want_dim, space=T.ZERO, time=T.ZERO, key=None):
    D, A, At = typers()
    where = ctx.where(f)
    key = key or what
    try:
        d = D.dim(term)
        ok = d == want_dim or (d == rules.ZERO_DIM)
        ctx.check(ok, "DIM", f"{f.qualname} / DIM / {key} : {want_dim}", where, f"dimension {d}", f"{what} has dimension {d}, expected {want_dim}: not invariant under a change of units")
    except rules.Inhomogeneous as e:
        ctx.violation("DIM", f"{f.qualname} / DIM / {key} : {want_dim}", where, f"{what} is dimensionally inhomogeneous: {e}")
    for nm, typer, want in (("space", A, space), ("time", At, time)):
        if want is None:
            continue
        w = typer.weight(term)
        ok = w == want
        ctx.check(ok, "AFF", f"{f.qualname} / AFF / {key} : {nm}-translation weight {T.show(want)}", where,
                  f"weight {T.show(w) if w != rules.TOP else 'TOP'}",
                  f"{what} has {nm}-translation weight {T.show(w) if w != rules.TOP else 'TOP (not affine)'}, expected {T.show(want)}: "
                  f"the value depends on where the origin of {'coordinates' if nm == 'space' else 'time'} is")


def run(ctx):
    repo = ctx.repo
    rules.borrow(ctx, "C13", funcs=["forsys.fmatrix.ForceMatrix.set_velocity_matrix", "forsys.time_series.TimeSeries.calculate_velocity"], minimum=10, because="the adimensional right-hand side is the raw velocity over the raw mean speed (a rounded copy is not unit-free)")
    rules.borrow(ctx, "C02", funcs=["forsys.fmatrix.ForceMatrix._build_matrix", "forsys.fmatrix.ForceMatrix.get_vertex_equation"], minimum=8, because="which junctions get equations must not depend on the orientation of the axes")
    rules.borrow(ctx, "C16", funcs=["forsys.fmatrix.ForceMatrix.get_angle_limited_edges"], minimum=3, because="the opening angle that excludes interfaces is a rotation invariant of the tangents")
    ctx.config("static; dynamic with b_matrix='velocity', adimensional_velocity=True; pressures with method='lagrange_pressure'; cm=False; externals_to_use=[]")
    ctx.trust("transfer: calculate_circle_center(points) is a point of the plane (dimension L, translation weight 1)")
    ctx.trust("transfer table for numpy callables: " + ", ".join(sorted(rules.BASIC_AFF_CALLS)))

    # ================================================================== coefficients of the force-balance system
    ctx.clause("uniform rescaling and translation leave every coefficient of the force-balance system unchanged")
    tv = repo.func(f"{BE}.get_vector_from_vertex")
    ctx.touch(tv)
    st = sym.summarize(repo, tv.qualname, bindings={tv.params[2]: ("str", "edge")})
    nverts = T.call("len", (T.attr(SELF, "vertices"),))
    # the value for three or more points, however the returns are arranged; of the two arms of the orientation choice the one that is
    # a bare array of coordinate differences is the tangent before orientation
    val = rules.assume(st.ret(), {T.ige(nverts, 3)})
    if val[0] == "phi" and val[2][0] == "arr" and val[3][0] != "arr":
        val = T.phi(T.b_not(val[1]), val[3], val[2])
    raw = val[3] if val[0] == "phi" else val
    judge(ctx, tv, "tangent vector before orientation", raw, L, key="tangent vector")
    sr = repo.func(f"{BE}.get_straight_edge_versor_from_vid")
    ctx.touch(sr)
    judge(ctx, sr, "orientation reference (first segment)", sym.summarize(repo, sr.qualname).ret(), L, key="reference segment")
    uv = repo.func(f"{BE}.get_versor_from_vertex")
    ctx.touch(uv)
    su = sym.summarize(repo, uv.qualname)
    vec = T.call(tv.qualname, (SELF,) + tuple(T.sym(p) for p in uv.params[1:]))
    D, A, At = typers()
    D.calls[tv.qualname] = lambda self_, t: L
    A.calls[tv.qualname] = "zero"
    try:
        d = D.dim(su.ret())
        ctx.check(d == ONE_D, "DIM", f"{uv.qualname} / DIM / versor : 1", ctx.where(uv), "vector / |vector| is dimensionless",
                  f"the coefficient pair has dimension {d}: tensions would change under a uniform rescaling of lengths")
    except rules.Inhomogeneous as e:
        ctx.violation("DIM", f"{uv.qualname} / DIM / versor : 1", ctx.where(uv), f"the coefficient pair is dimensionally inhomogeneous: {e}")

    # rotation / reflection: covariance of the orientation step (same construct as C02)
    ctx.clause("the assembled coefficient pairs rotate or reflect with the tissue")
    from .C02 import is_vector
    corrected = val[2] if val[0] == "phi" else None
    if corrected is None:
        raise AnalysisError("get_vector_from_vertex: orientation step not found - re-bind the anchor")
    K = rules.extra_factor(raw, corrected, [e.value for e in st.events if e.kind == "assign"])
    if K is None:
        raise AnalysisError("get_vector_from_vertex: orientation step not understood")
    if is_vector(repo, K):
        ctx.violation("COV", f"{tv.qualname} / COV / hadamard(vector, sign-array)", ctx.where(tv),
                      "the orientation multiplies the tangent element-wise by per-component signs: the coefficient pair of a rotated tissue is not the rotated pair")
    else:
        ctx.ok("COV", f"{tv.qualname} / COV / whole-vector orientation", ctx.where(tv), "scalar factor")

    # ================================================================== the normalisation multiplier must not act as a fixed vector
    ctx.clause("the mean-one constraint does not single out a direction of the plane")
    am = repo.func(f"{FM}.add_mean_one")
    ctx.touch(am)
    sam = sym.summarize(repo, am.qualname, heap={T.attr(SELF, "externals_to_use"): T.seq(())})
    ret = rules.arrnf(sam.ret())
    Mraw = T.attr(SELF, "matrix")
    hit = None
    for x in T.subterms(ret[1][0] if ret[0] == "seq" else ret):
        if x[0] == "call" and x[1] == "numpy.hstack" and x[2] and x[2][0][0] == "seq" and len(x[2][0][1]) == 2:
            left, col = x[2][0][1]
            raw_rows = any(y[0] == "call" and y[1] == "numpy.vstack" and y[2][0][0] == "seq" and y[2][0][1][0] == Mraw for y in T.subterms(left)) or left == Mraw
            if raw_rows and col[0] == "col":
                body = col[1]
                const_over_rows = any(y[0] == "fill" and y[1] == T.num(1) and y[2] == T.idx(T.attr(Mraw, "shape"), T.num(0)) for y in T.subterms(body))
                if const_over_rows:
                    hit = x
    if hit is not None:
        ctx.violation("COV", f"{am.qualname} / COV / multiplier column of ones over the x- and y-rows of the raw force matrix", ctx.where(am),
                      "the multiplier is appended as a column of ones over ALL junction rows of the un-squared matrix, whose rows alternate x- and "
                      "y-components: it acts as the fixed vector (1, 1) on every junction, which does not rotate or reflect with the tissue; whenever "
                      "the multiplier is non-zero (tissue not in exact balance) the tensions depend on the pose. The covariant form borders the normal "
                      "equations (as add_mean_one_before does)")
    else:
        ctx.ok("COV", f"{am.qualname} / COV / constraint does not enter as a per-component constant on the raw rows", ctx.where(am), "no ones column over raw component rows")
    amb = repo.func(f"{FM}.add_mean_one_before")
    ctx.touch(amb)
    samb = rules.arrnf(sym.summarize(repo, amb.qualname, heap={T.attr(SELF, "externals_to_use"): T.seq(())}).ret())
    N = T.call("matmul", (T.call("transpose", (Mraw,)), Mraw))
    okb = any(y[0] == "call" and y[1] == "numpy.hstack" and y[2][0][1][0] == N for y in T.subterms(samb))
    ctx.check(okb, "COV", f"{amb.qualname} / COV / constraint borders the normal equations (rows indexed by unknowns, rotation invariant)", ctx.where(amb),
              "hstack((M^T M, ones))", "add_mean_one_before no longer borders the normal equations M^T M")

    # ================================================================== the circle fit is similarity-equivariant
    ctx.clause("the fitted centre moves and scales with the points (objective invariant / homogeneous, start value a point)")
    dl = repo.func("forsys.virtual_edges.dlite_circle_method")
    obj = repo.functions.get("forsys.virtual_edges.dlite_circle_method.<locals>.objective_f")
    if obj is None:
        raise AnalysisError("dlite_circle_method: nested objective function not found - re-bind the anchor")
    ctx.touch(dl, obj)
    so = sym.summarize(repo, obj.qualname)
    px, py = (T.sym(p) for p in dl.params[:2])
    c = T.sym(obj.params[0])

    def fit_space_seed(t):
        if t in (px, py):
            return T.ONE
        if t[0] == "idx" and t[1] == c:
            return T.ONE
        return None

    def fit_dim_seed(t):
        if t in (px, py) or (t[0] == "idx" and t[1] == c):
            return L
        return None
    acalls = dict(rules.BASIC_AFF_CALLS)
    dcalls = dict(rules.BASIC_DIM_CALLS)
    Aw = rules.AffTyper(fit_space_seed, acalls)
    Dw = rules.DimTyper(fit_dim_seed, dcalls)
    w = Aw.weight(so.ret())
    ctx.check(w == T.ZERO, "AFF", f"{obj.qualname} / AFF / residuals unchanged when points and centre are translated together", ctx.where(obj),
              "distance-minus-mean-distance has translation weight 0", f"the fit residual has translation weight {T.show(w) if w != rules.TOP else 'TOP'}: the fitted centre would not move with the points")
    try:
        d = Dw.dim(so.ret())
        ctx.check(d == L, "DIM", f"{obj.qualname} / DIM / residuals homogeneous of degree 1", ctx.where(obj), "L", f"the fit residual has dimension {d}, expected L")
    except rules.Inhomogeneous as e:
        ctx.violation("DIM", f"{obj.qualname} / DIM / residuals homogeneous of degree 1", ctx.where(obj), f"inhomogeneous residual: {e}")
    sd = sym.summarize(repo, dl.qualname)
    starts = [e.args[1] for e in sd.calls() if e.fname == "scipy.optimize.leastsq" and len(e.args) >= 2]
    ok = len(starts) == 1 and Aw.weight(starts[0]) == T.ONE
    ctx.check(ok, "AFF", f"{dl.qualname} / AFF / start value of the fit is a point (translation weight 1)", ctx.where(dl),
              "(mean(xs), mean(ys))", "the start value of the circle fit is not a point that moves with the data")

    # ================================================================== pressure right-hand side
    ctx.clause("the total turning is scale free and translation invariant; the pressure rhs is tension x L^0")
    cv = repo.func(f"{BE}.calculate_curvature")
    tc = repo.func(f"{BE}.calculate_total_curvature")
    ctx.touch(cv, tc)
    judge(ctx, cv, "curvature", sym.summarize(repo, cv.qualname).ret(), rules.Dim({"L": Fraction(-1)}))
    stc = sym.summarize(repo, tc.qualname, bindings={tc.params[1]: T.FALSE})
    Dk, Ak, _ = typers()
    Dk.calls[cv.qualname] = lambda self_, t: rules.Dim({"L": Fraction(-1)})
    Ak.calls[cv.qualname] = "zero"
    try:
        d = Dk.dim(stc.ret())
        ctx.check(d == ONE_D, "DIM", f"{tc.qualname} / DIM / total turning (normalized=False) : 1", ctx.where(tc), "L^-1 * L", f"total turning has dimension {d}, expected dimensionless")
    except rules.Inhomogeneous as e:
        ctx.violation("DIM", f"{tc.qualname} / DIM / total turning (normalized=False) : 1", ctx.where(tc), f"inhomogeneous: {e}")
    w = Ak.weight(stc.ret())
    ctx.check(w == T.ZERO, "AFF", f"{tc.qualname} / AFF / total turning : space-translation weight 0", ctx.where(tc), "invariant", "total turning is not translation invariant")
    gr = repo.func("forsys.pmatrix.PressureMatrix.get_row")
    ctx.touch(gr)
    sg = sym.summarize(repo, gr.qualname)
    rhs = sg.ret()[1][1] if sg.ret()[0] == "seq" else None
    if rhs is None:
        raise AnalysisError("PressureMatrix.get_row no longer returns (row, rhs)")
    Dp, _, _ = typers()
    Dp.calls[tc.qualname] = lambda self_, t: ONE_D if (dict(t[3]).get("normalized") == T.FALSE or (len(t[2]) > 1 and t[2][1] == T.FALSE)) else rules.Dim({"L": Fraction(-1)})
    d = Dp.dim(rhs)
    ctx.check(d == rules.Dim({"S": Fraction(1)}), "DIM", f"{gr.qualname} / DIM / pressure rhs : stress * L^0", ctx.where(gr), f"{d}",
              f"the pressure right-hand side has dimension {d}: pressures would change under a uniform rescaling of lengths")

    # ================================================================== velocities
    ctx.clause("velocities are L*T^-1, invariant under translations of space and of the time origin")
    cvf = repo.func(f"{TS}.calculate_velocity")
    ctx.touch(cvf)
    from .C13 import resolve_exc
    vterm = resolve_exc(sym.summarize(repo, cvf.qualname).ret(), partner_handler=False)
    judge(ctx, cvf, "velocity", vterm, rules.Dim({"L": Fraction(1), "T": Fraction(-1)}))
    ctx.clause("with adimensional velocities the rhs is dimensionless in length and in time")
    sv = repo.func(f"{FM}.set_velocity_matrix")
    ctx.touch(sv)
    s1 = sym.summarize(repo, sv.qualname, config={"b_matrix": ("str", "velocity"), "adimensional_velocity": T.TRUE})
    ret = s1.ret()
    avg = ret[1][1]
    mean = avg[2] if avg[0] == "phi" else avg
    if avg[0] == "phi" and avg[2] == T.num(1):
        mean = avg[3]
    V = None
    for e in s1.stores():
        if e.sub and e.value[0] == "idx" and e.value[1][0] == "call" and e.value[1][1] == cvf.qualname:
            V = e.value[1]
    if V is None:
        raise AnalysisError("set_velocity_matrix: stored velocity components not found")
    Dv, _, _ = typers()
    LT = rules.Dim({"L": Fraction(1), "T": Fraction(-1)})
    Dv.calls[cvf.qualname] = lambda self_, t: LT
    try:
        d = Dv.dim(T.div(T.idx(V, T.num(0)), mean))
        ctx.check(d == ONE_D, "DIM", f"{sv.qualname} / DIM / velocity component / mean speed : 1", ctx.where(sv), "L*T^-1 / L*T^-1",
                  f"the adimensional rhs has dimension {d}: dynamic tensions would change with the unit of length or time")
    except rules.Inhomogeneous as e:
        ctx.violation("DIM", f"{sv.qualname} / DIM / velocity component / mean speed : 1", ctx.where(sv), f"inhomogeneous: {e}")
    # the expression actually returned: b / average_velocity * velocity_normalization, typed with b : L*T^-1
    BS = T.sym("<rhs before normalisation>")
    outs = [e for e in s1.events if e.kind == "assign" and e.old is not None and not e.loops() and T.contains(e.value, avg) and T.contains(e.value, e.old)]
    if len(outs) != 1:
        raise AnalysisError("set_velocity_matrix: normalisation of the rhs not found - re-bind the anchor")
    expr = T.substitute(outs[0].value, {outs[0].old: BS, avg: mean})
    Dn, _, _ = typers()
    Dn.calls[cvf.qualname] = lambda self_, t: LT
    base_seed = Dn.seed
    Dn.seed = lambda t: LT if t == BS else ONE_D if t[0] == "opt" else base_seed(t)
    try:
        d = Dn.dim(expr)
        ctx.check(d == ONE_D, "DIM", f"{sv.qualname} / DIM / returned rhs (b / mean speed * normalisation) : 1", ctx.where(sv, outs[0].node), "dimensionless",
                  f"the returned rhs has dimension {d}: dynamic tensions would change with the unit of length or time")
    except rules.Inhomogeneous as e:
        ctx.violation("DIM", f"{sv.qualname} / DIM / returned rhs (b / mean speed * normalisation) : 1", ctx.where(sv, outs[0].node), f"inhomogeneous: {e}")
    # lemma: the vectors averaged are exactly the vectors written (empty list <=> rhs is ZERO)
    apps = [e for e in s1.events if e.kind == "call" and isinstance(e.fname, tuple) and e.fname[1] == "append" and e.args and e.args[0] == V]
    bst = [e for e in s1.stores() if e.sub and e.value[0] == "idx" and e.value[1] == V]
    ok = len(apps) == 1 and len(bst) == 2 and all(set(e.conds()) == set(apps[0].conds()) and e.loops() == apps[0].loops() for e in bst)
    ctx.check(ok, "GUARD", f"{sv.qualname} / GUARD / every rhs store happens in the iteration that also records the vector", ctx.where(sv),
              "so an empty vector list implies a ZERO rhs (dimension-polymorphic)", "a velocity can be written into the rhs without being part of the mean speed (or vice versa)")

    # ================================================================== roundings on the inference path
    ctx.clause("no rounding of a dimensional or position quantity on the inference path (only the 3-decimal rounding of the dimensionless velocity term)")
    roots = ["forsys.forsys.ForSys.build_force_matrix", "forsys.forsys.ForSys.solve_stress", "forsys.forsys.ForSys.build_pressure_matrix",
             "forsys.forsys.ForSys.solve_pressure", "forsys.forsys.ForSys.__post_init__", "forsys.frames.Frame.__post_init__"]
    for r_ in roots:
        repo.func(r_)
    # reachability under the claimed configuration: an edge is dropped when every call site of the callee in the caller is
    # dominated by the positive test `if self.cm` (ForSys default cm=False, outside the claimed configuration - the same switch
    # that exempts a rounding site below); a helper that is only ever entered from such a branch is as dead as the branch.
    # A condition that merely mentions a switch (its negation, a test of its type) cuts nothing.
    def dead_guard(e):
        return T.attr(SELF, "cm") in e.conds()
    cg = repo.callgraph()
    reach, todo = set(), list(roots)
    while todo:
        q = todo.pop()
        if q in reach or q not in cg:
            continue
        reach.add(q)
        sq = sym.summarize(repo, q)
        for t in cg[q]:
            sites = [e for e in sq.events if e.kind == "call" and e.target in (t, t.rsplit(".", 1)[0])]
            if sites and all(dead_guard(e) for e in sites):
                continue
            todo.append(t)
    reach = sorted(reach)
    DIAGNOSTIC = {"rhs", "velocity_matrix", "velocity_matrix_dimensional"}
    n_round = 0
    live = []
    for q in reach:
        fq = repo.functions[q]
        s = sym.summarize(repo, q)
        stores_by_value = {}
        for e in s.stores():
            stores_by_value.setdefault(e.value, []).append(e)
        for e in s.calls():
            if not (e.fname == "round" or e.fname == ("m", "round") or e.fname in ("numpy.around", "numpy.round")):
                continue
            n_round += 1
            ctx.touch(fq)
            where = ctx.where(fq, e.node)
            mention = [c for c in list(e.conds()) + [g[2] for g in e.loops()] + [g[2] for g in e.guard if g[0] == "while"]]
            dead_ext = any(T.contains(c, T.attr(SELF, "externals_to_use")) for c in mention)
            dead_cm = any(T.contains(c, T.attr(SELF, "cm")) for c in mention)
            diag = any(st_.attr in DIAGNOSTIC and st_.base == SELF for st_ in stores_by_value.get(e.term, []))
            key = f"{q} / ROUND / `{fq.module.line(e.node.lineno)[:60]}`"
            if diag:
                ctx.ok("CONST", key, where, "diagnostic attribute only (never read on the inference path)")
            elif dead_ext:
                ctx.ok("CONST", key, where, "dead under externals_to_use=[] (hard-wired by ForSys.build_force_matrix)")
            elif dead_cm:
                ctx.ok("CONST", key, where, "only under cm=True (ForSys default False); declared outside the claimed configuration")
            else:
                live.append((fq, e, key, where))
    for fq, e, key, where in live:
        operand = e.term[2][0] if e.term[0] == "call" and e.term[2] else None
        digits = e.term[2][1] if e.term[0] == "call" and len(e.term[2]) > 1 else None
        augs = (f"{FM}.add_mean_one", f"{FM}.add_mean_one_before", f"{FM}.fix_one_stress")
        parts = {int(x[2][1]) for x in T.subterms(operand) if x[0] == "idx" and x[2][0] == "num" and x[1][0] == "call" and x[1][1] in augs} if operand else set()
        is_vel = fq.qualname == f"{FM}.solve" and operand is not None and parts == {1} and \
            any(x[0] == "call" and x[1] == f"{FM}.set_velocity_matrix" for x in T.subterms(operand))
        ctx.check(is_vel and digits is not None and digits[0] == "num" and digits[1] >= 3, "CONST", key, where,
                  "the velocity term (dimensionless, weight 0) rounded to >= 3 decimals",
                  f"`{fq.module.line(e.node.lineno)[:80]}` rounds a quantity on the inference path that is not the dimensionless velocity term: "
                  f"results would depend on the unit of length / the position of the origin")
    # the vacuity guard is on what was scanned, not on how many roundings exist: deleting a rounding never breaks the property
    ctx.count("CONST", "functions on the inference closure scanned for roundings", len(reach), 60)
    ctx.ok("CONST", "closure / ROUND / scanned", "forsys/*", f"{len(reach)} functions reachable from build/solve entry points, {n_round} rounding sites, {len(live)} live")

    # ================================================================== tracking compares lengths with lengths
    ctx.clause("tracking compares translation-invariant lengths with lengths")
    fb = repo.func(f"{TS}.find_best")
    ctx.touch(fb)
    sf = sym.summarize(repo, fb.qualname)
    D2, A2, _ = typers()
    D2.loop_init = sf.loop_init
    n = 0
    merged = [e.value for e in sf.events if e.kind == "assign" and e.value[0] == "call" and e.value[1] == "numpy.concatenate" and not e.loops()]
    feeds = {x[1] for m in merged for x in T.subterms(m) if x[0] in ("loopres", "lc")}
    for e in rules.additions(sf):
        if e.loops() and e.name in feeds:
            for c in e.conds():
                if c[0] == "cmp" and c[1] in ("lt", "le"):
                    n += 1
                    try:
                        d1, d2 = D2.dim(c[2]), D2.dim(c[3])
                        w1, w2 = A2.weight(c[2]), A2.weight(c[3])
                        ctx.check(d1 == d2 and w1 == T.ZERO and w2 == T.ZERO, "DIM", f"{fb.qualname} / DIM / candidate test compares {d1} with {d2}, both invariant (line +{e.node.lineno - fb.node.lineno})",
                                  ctx.where(fb, e.node), "squared distance vs (spread*extent)^2",
                                  f"the candidate test compares {d1} (weight {w1}) with {d2} (weight {w2})")
                    except rules.Inhomogeneous as ex:
                        ctx.violation("DIM", f"{fb.qualname} / DIM / candidate test homogeneous (line +{e.node.lineno - fb.node.lineno})", ctx.where(fb, e.node), str(ex))
    ctx.count("DIM", "distance tests in find_best", n, 2)

    # ================================================================== the one use of absolute coordinates: the shoelace sign
    ctx.clause("the only use of absolute coordinates on the pressure path (area sign) is translation invariant")
    ga = repo.func("forsys.cell.Cell.get_area")
    ctx.touch(ga)
    sa = sym.summarize(repo, ga.qualname, inline={"forsys.vertex.Vertex.get_coords"})
    cs = cyclic.to_csum(sa.ret())
    if cs is None:
        raise AnalysisError("Cell.get_area is not a cyclic sum - see C20")
    it, summand = cs
    a, b = T.sym("<a>"), T.sym("<b>")
    sub = {}
    for x in set(T.subterms(summand)):
        if x[0] == "attr" and x[1][0] == "at" and x[2] == "x":
            sub[x] = T.add(x, a)
        if x[0] == "attr" and x[1][0] == "at" and x[2] == "y":
            sub[x] = T.add(x, b)
    diff = cyclic.normalise(T.sub(T.substitute(summand, sub), summand))
    ctx.check(diff == T.ZERO, "AFF", f"{ga.qualname} / AFF / cyclic sum unchanged by (x+a, y+b)", ctx.where(ga),
              "difference of the cyclic sums normalises to 0", f"the signed area changes under translation by {T.show(diff)[:120]} per vertex")

    ctx.clause("both systems are assembled anew at every build: positions, tensions and options of an earlier call cannot survive a transformation")
    rules.fresh_build(ctx, "force")
    rules.fresh_build(ctx, "pressure")



_E, _P, _T = "forsys/edge.py", "forsys/fmatrix.py", "forsys/time_series.py"
PINNED = [
    ("machine epsilon added to the curvature denominator", _E, "((dx_dt**2 + dy_dt**2)**1.5)", "((dx_dt**2 + dy_dt**2)**1.5 + np.finfo(float).eps)"),
    ("circle fit started at the origin", "forsys/virtual_edges.py", "center, _ = sco.leastsq(objective_f, (np.mean(xs), np.mean(ys)))", "center, _ = sco.leastsq(objective_f, (0.0, 0.0))"),
    ("circle fit residual uses absolute x", "forsys/virtual_edges.py", "distances = np.sqrt((xs - c[0]) ** 2 + (ys - c[1]) ** 2)", "distances = np.sqrt((xs) ** 2 + (ys - c[1]) ** 2)"),
    ("coordinates rounded inside the tangent", _E, "vector = np.array((- (vobject.y - yc), (vobject.x - xc)))", "vector = np.array((- (round(vobject.y, 3) - yc), (round(vobject.x, 3) - xc)))"),
    ("tangent from absolute coordinates", _E, "vector = np.array((- (vobject.y - yc), (vobject.x - xc)))", "vector = np.array((- (vobject.y), (vobject.x - xc)))"),
    ("versor not normalised (dimension L)", _E, "versor = vector / np.linalg.norm(vector)", "versor = vector"),
    ("versor divided by the squared norm", _E, "versor = vector / np.linalg.norm(vector)", "versor = vector / np.linalg.norm(vector)**2"),
    ("pressure rhs with length-normalised turning", "forsys/pmatrix.py", "curvature = big_edge.calculate_total_curvature(normalized=False)", "curvature = big_edge.calculate_total_curvature(normalized=True)"),
    ("curvature exponent 1", _E, "((dx_dt**2 + dy_dt**2)**1.5)", "((dx_dt**2 + dy_dt**2)**1)"),
    ("curvature from absolute positions", _E, "        d2x_dt2 = np.gradient(dx_dt)\n", "        d2x_dt2 = np.gradient(dx_dt) + 1e-9 * np.array(self.xs)\n"),
    ("velocity not divided by elapsed time", _T, "return (np.array([v1.x, v1.y]) - np.array([v0.x, v0.y])) / (tf - ti)", "return (np.array([v1.x, v1.y]) - np.array([v0.x, v0.y]))"),
    ("velocity divided by the absolute time", _T, "return (np.array([v1.x, v1.y]) - np.array([v0.x, v0.y])) / (tf - ti)", "return (np.array([v1.x, v1.y]) - np.array([v0.x, v0.y])) / tf"),
    ("rhs divided by the squared mean speed", _P, "b = (b / average_velocity) * self.velocity_normalization", "b = (b / average_velocity**2) * self.velocity_normalization"),
    ("mean of squared speeds as divisor", _P, "average_velocity = np.mean([np.linalg.norm(vector) for vector in vector_of_vectors])", "average_velocity = np.mean([np.linalg.norm(vector)**2 for vector in vector_of_vectors])"),
    ("augmented matrix rounded", _P, "        mprime = mprime.astype(np.float64)\n        # flatten b", "        mprime = mprime.astype(np.float64).round(3)\n        # flatten b"),
    ("chord reference from the origin", _E, "return [v1.x - v0.x, v1.y - v0.y]", "return [v1.x, v1.y - v0.y]"),
    ("tracking radius in absolute units", _T, "            maxspread = spread * self.maxcoord\n", "            maxspread = spread * 100\n"),
]
PRESERVING = [
    ("tangent with distributed minus", _E, "vector = np.array((- (vobject.y - yc), (vobject.x - xc)))", "vector = np.array((yc - vobject.y, vobject.x - xc))"),
]

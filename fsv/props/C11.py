"""C11 - mesh resampling keeps junctions, topology and interface shape (DESIGN.md section 3, C11)."""
import ast
from fractions import Fraction

from .. import terms as T
from .. import sym, rules
from ..model import AnalysisError

EXPLANATION = ("Sampling formula of generate_mesh on evaluator terms (indices int(len(E)/ne*i) for i in range(ne) - constant-folds to 0 at "
               "i=0 - plus the last point appended unconditionally, short interfaces appended whole, so both ends are always kept and "
               "at most ne+1 points remain); cell cycles only shrink (the only mutation in generate_mesh is vertices.remove); the "
               "two-point border contraction target is the affine midpoint (formula identity, no abs()), under the stated border condition.")

GM = "forsys.virtual_edges.generate_mesh"
JV = "forsys.virtual_edges.join_two_vertices"


def run(ctx):
    repo = ctx.repo
    rules.borrow(ctx, "C09", funcs=["forsys.virtual_edges.join_two_vertices"], minimum=6, because="contracting a two-point border interface re-points every edge and cell of both ends")
    rules.borrow(ctx, "C08", funcs=["forsys.virtual_edges.create_edges_new"], minimum=3, because="resampling works interface by interface: each interface is listed exactly once")
    f = repo.func(GM)
    ctx.touch(f)
    s = sym.summarize(repo, f.qualname)
    vertices, edges, cells, ne = (T.sym(p) for p in f.params[:4])
    gmparams = f.params
    # no way out of generate_mesh in front of the contraction of two-point border interfaces: an early `return` (whatever its reason)
    # hands back a mesh in which those interfaces still have their two ends
    own = repo.own_nodes(f)
    joins = [n for n in own if isinstance(n, ast.Call) and rules.call_name(repo, f, n) == "forsys.virtual_edges.join_two_vertices"]
    rets = [n for n in own if isinstance(n, ast.Return)]
    if joins and rets:
        last_join = max(n.lineno for n in joins)
        def empty_input_guard(r_):
            """`if not xs: return ...` / `if len(xs) == 0: return ...`: nothing to resample, nothing to contract"""
            for n in own:
                if isinstance(n, ast.If) and r_ in n.body:
                    t = n.test
                    if isinstance(t, ast.UnaryOp) and isinstance(t.op, ast.Not) and isinstance(t.operand, (ast.Name, ast.Attribute)):
                        return True
                    if isinstance(t, ast.Compare) and len(t.ops) == 1 and isinstance(t.ops[0], ast.Eq) and isinstance(t.left, ast.Call) \
                            and isinstance(t.left.func, ast.Name) and t.left.func.id == "len" and rules.const_value(t.comparators[0]) == 0:
                        return True
            return False
        for r_ in rets:
            if r_.lineno < last_join and not empty_input_guard(r_):
                ctx.violation("GUARD", f"{GM} / GUARD / every exit lies behind the contraction of two-point border interfaces", ctx.where(f, r_),
                              f"`{f.module.line(r_.lineno)}` leaves generate_mesh in front of the call of join_two_vertices (line {last_join}): "
                              "on that path a two-point border interface keeps its two ends instead of being contracted to its midpoint")
        if all(r_.lineno > last_join or empty_input_guard(r_) for r_ in rets):
            ctx.ok("GUARD", f"{GM} / GUARD / every exit lies behind the contraction of two-point border interfaces", ctx.where(f), f"{len(rets)} return statement(s), all after line {last_join}")
    # the list that is returned as the resampled interfaces
    ret_gm = s.ret()
    built = [x[1] for x in T.subterms(ret_gm[1][3]) if x[0] in ("loopres", "lc")] if ret_gm[0] == "seq" and len(ret_gm[1]) == 4 else []
    if not built:
        raise AnalysisError("generate_mesh no longer returns (vertices, edges, cells, <interface list built in the function>) - re-bind the anchor")
    arr_name = built[0]
    apps = [e for e in s.events if e.kind == "call" and isinstance(e.fname, tuple) and e.fname[1] == "append"
            and isinstance(e.node.func.value, ast.Name) and e.node.func.value.id == arr_name]
    if len(apps) < 2:
        raise AnalysisError("generate_mesh: appends to the resampled interface list not found")
    ctx.clause("each interface keeps both ends and at most ne+1 points; short interfaces are kept whole")
    n_long = n_short = 0
    for e in apps:
        where = ctx.where(f, e.node)
        lp = e.loops()
        if len(lp) != 1:
            raise AnalysisError(f"{where}: append outside the interface loop")
        E = ("bv", lp[0][1])
        long_c = T.cmp("Lt", ne, T.call("len", (E,)))
        if long_c in e.conds():
            n_long += 1
            i = ("bv", 0)
            sampled = ("map", T.idx(E, T.call("int", (T.mul(T.div(T.call("len", (E,)), ne), i),))), i, T.call("range", (T.num(0), ne)), T.TRUE)
            sampled2 = ("map", sampled[1], i, T.call("range", (ne,)), T.TRUE)
            want = [("app", sm, T.idx(E, T.num(-1))) for sm in (sampled, sampled2)]
            got = e.args[0]
            ok = any(T.alpha(got) == T.alpha(w) for w in want)
            # index at i = 0 folds to 0: the first end is kept
            first = T.substitute(sampled[1], {i: T.ZERO})
            ctx.check(ok, "FORM", f"{GM} / FORM / long interface -> [E[int(len(E)/ne*i)] for i in range(ne)] + [E[-1]]", where,
                      f"first sampled index folds to {T.show(first)}; last point appended unconditionally; ne+1 points",
                      f"a long interface is resampled to {T.show(T.alpha(got))[:260]}; the statement requires an ordered subsequence that retains both ends and has at most ne+1 points")
        elif T.b_not(long_c) in e.conds() or T.cmp("LtE", T.call("len", (E,)), ne) in e.conds():
            n_short += 1
            ctx.check(e.args[0] == E and len(e.conds()) == 1, "FORM", f"{GM} / FORM / short interface appended whole", where,
                      "interfaces with len <= ne are unchanged", f"a short interface is replaced by {T.show(T.alpha(e.args[0]))[:120]} under {[T.show(c) for c in e.conds()]}")
        else:
            # a different threshold between len(E) and ne is positively identified when the condition is a comparison of polynomials over them
            thr = [c for c in e.conds() if c[0] == "cmp" and c[1] in ("lt", "le") and
                   {repr(x) for x in T.subterms(c) if x[0] in ("sym", "call") and x not in (ne,) and not (x[0] == "call" and x[1] == "len" and x[2] == (E,))} <= {repr(E)}
                   and any(x == ne for x in T.subterms(c)) and any(x == T.call("len", (E,)) for x in T.subterms(c))]
            if thr:
                ctx.violation("FORM", f"{GM} / FORM / an interface is resampled exactly when it has more than ne points", where,
                              f"the branch is taken under {T.show(T.alpha(thr[0]))} instead of len(E) > ne (resp. its negation): interfaces of some lengths keep more than ne+1 points or lose points they should keep")
            else:
                raise AnalysisError(f"{where}: append to the resampled list under an unrecognised condition {[T.show(c)[:80] for c in e.conds()]}")
    ctx.count("FORM", "long-interface sampling sites", n_long, 1)
    ctx.count("FORM", "short-interface sites", n_short, 1)
    loop_src = {e.loops()[0][2] for e in apps}
    ctx.check(loop_src == {T.call("forsys.virtual_edges.create_edges_new", (vertices, cells))}, "ALIGN", f"{GM} / ALIGN / interfaces come from create_edges_new(vertices, cells)",
              ctx.where(f), "same decomposition as Frame (C08)", f"resampling iterates {[T.show(x)[:80] for x in loop_src]}")

    ctx.clause("every cell's vertex cycle is a subsequence of the original: cycles only shrink")
    muts = [(st, fq) for fq, st in repo.writers_of("vertices", kinds=("elem", "mut", "del_elem", "rebind")) if fq.qualname == GM
            and st["recv"] is not None and isinstance(st["recv"], ast.Subscript)]
    ok = bool(muts) and all(st["kind"] == "mut" and st.get("method") == "remove" for st, _ in muts)
    ctx.check(ok, "WHO", f"{GM} / WHO / cell cycles changed only by vertices.remove()", ctx.where(f),
              f"{len(muts)} mutation site(s), all remove", f"generate_mesh changes a cell cycle by {[(st['kind'], st.get('method')) for st, _ in muts]}")
    rm = [e for e in s.events if e.kind == "call" and isinstance(e.fname, tuple) and e.fname[1] == "remove" and e.recv is not None
          and e.recv[0] == "attr" and e.recv[2] == "vertices"]
    okr = False
    for e in rm:
        lp = e.loops()
        if len(lp) == 2 and lp[0][2] == T.call(("m", "items"), (vertices,)):
            b = ("bv", lp[0][1])
            unused = [c for c in e.conds() if c[0] == "not" and c[1][0] == "in" and c[1][1] == T.idx(b, T.num(0))]
            okr = bool(unused) and e.args == (T.idx(b, T.num(1)),) and lp[1][2] == T.attr(T.idx(b, T.num(1)), "ownCells") \
                and e.recv == T.attr(T.idx(cells, ("bv", lp[1][1])), "vertices")
    ctx.check(okr, "FORM", f"{GM} / FORM / exactly the vertices in no resampled interface leave their cells", ctx.where(f),
              "for vID, v: if vID not in chain(nEdgeArray): for cid in v.ownCells: cells[cid].vertices.remove(v)",
              "the removal of unused vertices from the cell cycles no longer matches 'vertex id not in any resampled interface'")

    ctx.clause("every cell that still has a vertex is kept: only cells left with no vertex at all are removed")
    dc = [e for e in s.events if e.kind == "del" and (e.attr or "").lstrip("$") == gmparams[2] and e.loops()]
    okd = bool(dc)
    for e in dc:
        it = e.loops()[-1][2]
        c = ("bv", 0)
        want = ("map", T.idx(c, T.num(0)), c, T.call(("m", "items"), (cells,)), T.b_not(T.ige(T.call("len", (T.attr(T.idx(c, T.num(1)), "vertices"),)), 1)))
        okd = okd and T.alpha(it) == T.alpha(want) and e.key == ("bv", e.loops()[-1][1])
    ctx.check(okd, "GUARD", f"{GM} / GUARD / a cell is removed only when its cycle is empty", ctx.where(f),
              "cells_to_remove = [c for c in cells if len(cells[c].vertices) == 0]",
              "cells are removed under a weaker test than 'no vertex left': a cell bounded by few junctions disappears together with its adjacencies")

    ctx.clause("junctions stay at their exact position: resampling never writes a coordinate of an existing vertex")
    reach = sorted(repo.reachable([GM]))
    moved = []
    for qn in reach:
        fq = repo.functions[qn]
        ctx.touch(fq)
        for st_ in repo.stores(fq):
            if st_["attr"] in ("x", "y") and st_["kind"] == "rebind":
                moved.append((fq, st_))
    for fq, st_ in moved:
        ctx.violation("WHO", f"{fq.qualname} / WHO / coordinate .{st_['attr']} written during resampling", ctx.where(fq, st_["node"]),
                      f"`{fq.module.line(st_['node'].lineno)}` moves a vertex inside the resampling closure")
    if not moved:
        ctx.ok("WHO", f"{GM} / WHO / no coordinate store in the resampling closure", ctx.where(f), f"{len(reach)} functions reachable, 0 stores to .x/.y")

    ctx.clause("a two-point interface on the tissue border is contracted to its midpoint")
    tj = [e for e in s.events if e.kind == "call" and isinstance(e.fname, tuple) and e.fname[1] == "append"
          and isinstance(e.node.func.value, ast.Name) and e.node.func.value.id not in (arr_name,) and e.args and e.loops()
          and any(x[0] == "attr" and x[2] == "ownCells" for c in e.conds() for x in T.subterms(c))]
    okb = False
    for e in tj:
        E = ("bv", e.loops()[0][1])
        n = T.call("len", (E,))

        def few(k):
            return T.b_not(T.ige(T.call("len", (T.attr(T.idx(vertices, T.idx(E, T.num(k))), "ownCells"),)), 3))
        need = {T.ige(n, 2), T.b_not(T.ige(n, 3)), few(0), few(1)}
        need_alt = {T.ige(n, 2), T.b_not(T.ige(n, 3)), few(0), few(-1)}
        have = set(e.conds()) - {T.cmp("LtE", n, ne)}
        okb = e.args == (E,) and have in (need, need_alt)
        ctx.check(okb, "GUARD", f"{GM} / GUARD / contraction candidates: len == 2 and both ends in < 3 cells", ctx.where(f, e.node),
                  "border condition as stated", f"contraction candidates selected under {[T.show(T.alpha(c))[:70] for c in e.conds()]}")
    if not tj:
        raise AnalysisError("generate_mesh: selection of two-point border interfaces not found - re-bind the anchor")
    j = repo.func(JV)
    ctx.touch(j)
    sj = sym.summarize(repo, j.qualname)
    news = [e for e in sj.stores() if e.sub and e.value[0] == "call" and e.value[1] == "new:forsys.vertex.Vertex"]
    if len(news) != 1:
        raise AnalysisError("join_two_vertices: creation of the merged vertex not found")
    # the two merged vertices are the ones deleted from the vertex dictionary at the end (their ids are the deletion keys)
    def unattr(t, name):
        if t[0] == "attr" and t[2] == name:
            return t[1]
        if t[0] == "phi":
            a, b = unattr(t[2], name), unattr(t[3], name)
            return T.phi(t[1], a, b) if a is not None and b is not None else None
        return None
    dels = [e for e in sj.events if e.kind == "del" and e.key is not None and unattr(e.key, "id") is not None
            and sj.pos(e) > sj.pos(news[0])]
    if len(dels) != 2:
        raise AnalysisError(f"join_two_vertices: expected the two merged vertices to be deleted by id, found {len(dels)} deletions - re-bind the anchor")
    v0, v1 = unattr(dels[0].key, "id"), unattr(dels[1].key, "id")
    a = news[0].value[2]
    half = T.num(Fraction(1, 2))
    for k, c in ((1, "x"), (2, "y")):
        want = T.mul(half, T.add(sj.env and T.attr(v0, c) if False else _attr(sj, v0, c), _attr(sj, v1, c)))
        rules.decide_equal(ctx, "FORM", f"{JV} / FORM / merged vertex {c} = (v0.{c} + v1.{c}) / 2", ctx.where(j, news[0].node), a[k], want, f"{c} coordinate of the merged vertex")
    # which two vertices: the ends of the interface handed in
    p = T.sym(j.params[0])
    vs = T.sym(j.params[1])
    ok = all(any(x == T.idx(vs, T.idx(p, T.num(k))) for x in T.subterms(v)) for k, v in ((0, v0), (1, v1)))
    ctx.check(ok, "ALIGN", f"{JV} / ALIGN / merged vertices are the two ends handed in", ctx.where(j), "v0 = vertices[e[0]], v1 = vertices[e[1]] (or their replacements)",
              "the merged vertices are not the two ends of the interface handed in")
    ctx.clause("the contracted vertex gets an id that no surviving vertex uses")
    gu = repo.func("forsys.virtual_edges.get_unused_id")
    ctx.touch(gu)
    sgu = sym.summarize(repo, gu.qualname)
    dpar = T.sym(gu.params[0])
    ret = sgu.ret()
    fresh = False
    if ret[0] == "loopres":
        # the returned candidate is re-tested against the dictionary until it is absent
        cand = ("lc", ret[1], ret[2])
        for e in sgu.events:
            for g in e.guard:
                if g[0] == "while" and g[1] == ret[2]:
                    tests = T.conjuncts(g[2])
                    fresh = any(t_ in (T.cmp("NotEq", T.call(("m", "get"), (dpar, cand)), T.NONE), ("in", cand, dpar), ("in", cand, T.call(("m", "keys"), (dpar,)))) for t_ in tests)
    # positive form of the same finding: the function never looks anything up in the dictionary it was handed (no membership test, no
    # .get, no subscript), so whatever it returns cannot have been checked against the ids in use - however the function is written
    looks = [x for e in sgu.events for fld in ("value", "term", "test") for x in T.subterms(getattr(e, fld, None) or T.NONE)
             if (x[0] == "in" and dpar in T.subterms(x[2])) or (x[0] == "call" and x[1] in (("m", "get"), ("m", "keys"), ("m", "__contains__")) and x[2] and x[2][0] == dpar)
             or (x[0] == "idx" and x[1] == dpar)]
    looks += [g for e in sgu.events for g in e.guard if g[0] == "while" and any(y == dpar for y in T.subterms(g[2]) ) and
              any(y[0] in ("in",) or (y[0] == "call" and y[1] == ("m", "get")) for y in T.subterms(g[2]))]
    if not looks and not fresh:
        ctx.violation("KEY", f"{gu.qualname} / KEY / returned id re-tested until absent from the dictionary", ctx.where(gu),
                      "get_unused_id never tests a candidate against the dictionary (no `in`, `.get` or look-up of it anywhere in the function): after resampling the ids are "
                      "not contiguous, so e.g. len(dictionary) can be the id of a live vertex, which the merged vertex then overwrites")
    else:
        ctx.check(fresh, "KEY", f"{gu.qualname} / KEY / returned id re-tested until absent from the dictionary", ctx.where(gu),
                  "while dictionary.get(new_id) is not None: next candidate", "get_unused_id returns a candidate without checking that no existing vertex uses it (ids are not contiguous after resampling)")
    newid = news[0].key
    ctx.check(newid == T.call(gu.qualname, (T.sym(j.params[1]),)), "KEY", f"{JV} / KEY / merged vertex stored under get_unused_id(vertices)", ctx.where(j, news[0].node),
              "fresh id of the vertex dictionary itself", f"the merged vertex is stored under {T.show(T.alpha(newid))[:80]}")

    calls = [e for e in s.calls() if e.target == JV]
    okc = len(calls) == 1 and ("opt", "replace_short_edges", T.TRUE) in calls[0].conds()
    ctx.check(okc, "GUARD", f"{GM} / GUARD / contraction only when replace_short_edges (default True)", ctx.where(f),
              "join_two_vertices is called under kwargs.get('replace_short_edges', True)", "the contraction is no longer controlled by replace_short_edges (default True)")


def _attr(summary, base, name):
    if base[0] == "phi":
        return T.phi(base[1], _attr(summary, base[2], name), _attr(summary, base[3], name))
    return T.attr(base, name)


_V = "forsys/virtual_edges.py"
PINNED = [
    ("early return when no interface is longer than ne", "forsys/virtual_edges.py", "    nEdgeArray = []\n", "    if all(len(e) <= ne for e in bedges):\n        return vertices, edges, cells, bedges\n    nEdgeArray = []\n"),
    ("cells with fewer than three vertices removed", _V, "        if len(cells[c].vertices) == 0:", "        if len(cells[c].vertices) < 3:"),
    ("resampling snaps kept vertices to a grid", _V, "    # remove all edges\n    edges.clear()", "    for v in vertices.values():\n        v.x = round(v.x, 2)\n        v.y = round(v.y, 2)\n    # remove all edges\n    edges.clear()"),
    ("resampling threshold off by two", _V, "        if len(e) > ne:\n            if not e in alreadySeen", "        if len(e) - 2 > ne:\n            if not e in alreadySeen"),
    ("get_unused_id without the collision loop", _V, "    new_id = len(dictionary)\n    i = 0\n    while dictionary.get(new_id) != None:\n        new_id = len(dictionary) + i\n        i += 1\n    return new_id", "    return len(dictionary)"),
    ("F4 reintroduced: abs() around the midpoint", _V, "x_cm = (v0.x + v1.x) / 2", "x_cm = abs(v0.x + v1.x) / 2"),
    ("midpoint of y uses v0 twice", _V, "y_cm = (v0.y + v1.y) / 2", "y_cm = (v0.y + v0.y) / 2"),
    ("last point only appended for even lengths", _V, "                nEdge.append(e[-1])\n", "                if len(e) % 2 == 0:\n                    nEdge.append(e[-1])\n"),
    ("sampling starts at i = 1", _V, "    edgeRange = range(0, ne)\n", "    edgeRange = range(1, ne)\n"),
    ("rounding instead of truncation", _V, "nEdge.append(e[int(each * i)])", "nEdge.append(e[round(each * i) + 1])"),
    ("short interfaces lose their last point", _V, "        else:\n            nEdgeArray.append(e)\n            alreadySeen.append(e)", "        else:\n            nEdgeArray.append(e[:-1] if len(e) > 2 else e)\n            alreadySeen.append(e)"),
    ("contraction also for interior two-point interfaces", _V, "            if (len(e) == 2 and\n                len(vertices[e[0]].ownCells) < 3 and\n                len(vertices[e[1]].ownCells) < 3):", "            if (len(e) == 2 and\n                len(vertices[e[0]].ownCells) < 3):"),
    ("contraction of three-point interfaces", _V, "            if (len(e) == 2 and\n                len(vertices[e[0]].ownCells) < 3", "            if (len(e) <= 3 and\n                len(vertices[e[0]].ownCells) < 3"),
    ("cycle reversed during clean-up", _V, "            for cid in v.ownCells:\n                cells[cid].vertices.remove(v)", "            for cid in v.ownCells:\n                cells[cid].vertices.remove(v)\n                cells[cid].vertices.reverse()"),
    ("contraction not optional", _V, '    if kwargs.get("replace_short_edges", True):\n', "    if True:\n"),
]
PRESERVING = [
    ("midpoint as 0.5 * sum", _V, "x_cm = (v0.x + v1.x) / 2", "x_cm = 0.5 * (v1.x + v0.x)"),
    ("sampling loop as a comprehension", _V, "                nEdge = []\n                for i in edgeRange:\n                    nEdge.append(e[int(each * i)])\n                nEdge.append(e[-1])",
     "                nEdge = [e[int(each * i)] for i in edgeRange]\n                nEdge.append(e[-1])"),
]

"""C13 - velocities are finite differences of tracked vertices over real elapsed time (DESIGN.md section 3, C13)."""
import ast
from fractions import Fraction

from .. import terms as T
from .. import sym, rules
from ..model import AnalysisError

EXPLANATION = ("Formula identity of TimeSeries.calculate_velocity with ((p1 - p0)/(time[t1] - time[t0])) where the SAME neighbour frame t1 "
               "indexes position and time (t1 = t-1 at the last frame, else t+1), handler path 'no partner' yields exactly zero, "
               "row placement of each junction's velocity through its own map_vid_to_row entry, guard domination of every rhs store by "
               "the dynamic-mode condition, divisor = mean speed over exactly the written vectors = reported system velocity, units L/T.")

TS = "forsys.time_series.TimeSeries"
FM = "forsys.fmatrix.ForceMatrix"
SELF = T.sym("self")
GPM = f"{TS}.get_point_id_by_map"


def resolve_exc(t, partner_handler):
    """phi over an exception condition: the partner lookup keeps handler/body as asked, every other try takes its body"""
    def f(x):
        if x[0] == "phi" and x[1][0] in ("exc", "maybe"):
            handler, body = x[2], x[3]
            is_partner = any(y[0] == "call" and y[1] == GPM for y in T.subterms(body))
            if is_partner and partner_handler:
                return handler
            return body
        if x[0] == "call" and x[1] == "int" and len(x[2]) == 1 and x[2][0][0] == "sym":
            return x[2][0]          # int() of a frame index is the identity (declared assumption)
        return None
    return T.transform(t, f)


def dim_seed(t):
    if t[0] == "attr" and t[2] in ("x", "y"):
        return rules.Dim({"L": Fraction(1)})
    if t[0] == "attr" and t[2] == "time":
        return rules.Dim({"T": Fraction(1)})
    return None


def run(ctx):
    repo = ctx.repo
    rules.borrow(ctx, "C12", funcs=["forsys.time_series.TimeSeries.get_point_id_by_map", "forsys.time_series.TimeSeries.create_mapping"], minimum=10, because="the tracked successor / predecessor is read through the mapping, inverted for the backward step")
    # ------------------------------------------------------------------ calculate_velocity
    f = repo.func(f"{TS}.calculate_velocity")
    ctx.touch(f)
    if len(f.params) < 3:
        raise AnalysisError("calculate_velocity signature changed - re-bind the anchor")
    point, t = T.sym(f.params[1]), T.sym(f.params[2])
    s = sym.summarize(repo, f.qualname)
    series = T.attr(SELF, "time_series")
    last = T.cmp("Eq", t, T.sub(T.call("len", (series,)), T.num(1)))
    t1 = T.phi(last, T.sub(t, T.num(1)), T.add(t, T.num(1)))
    v0 = T.idx(T.attr(T.idx(series, t), "vertices"), point)
    v1 = T.idx(T.attr(T.idx(series, t1), "vertices"), T.call(GPM, (SELF, point, t, t1)))
    dt = T.sub(T.attr(T.idx(series, t1), "time"), T.attr(T.idx(series, t), "time"))
    spec = T.arr((T.div(T.sub(T.attr(v1, "x"), T.attr(v0, "x")), dt), T.div(T.sub(T.attr(v1, "y"), T.attr(v0, "y")), dt)))
    ret = s.ret()
    where = ctx.where(f)
    ctx.clause("velocity = (position of the tracked partner in the neighbour frame - position) / (time of that frame - time of this frame)")
    code = resolve_exc(ret, partner_handler=False)
    rules.decide_equal(ctx, "FORM", f"{f.qualname} / FORM / finite difference over the same neighbour frame", where, code, spec, "velocity")
    ctx.clause("a vertex with no tracked partner gets velocity zero")
    code0 = resolve_exc(ret, partner_handler=True)
    has_handler = code0 != code
    ctx.check(has_handler and code0 == T.arr((T.ZERO, T.ZERO)), "GUARD", f"{f.qualname} / GUARD / missing partner -> zero velocity", where,
              "KeyError handler of the partner lookup substitutes the vertex' own position: numerator is identically 0",
              f"with no tracked partner the velocity is {T.show(T.alpha(code0))[:200]}, not zero" if has_handler else
              "the partner lookup has no handler for a missing partner (KeyError)")
    # handler catches KeyError
    ok = False
    for x in T.subterms(ret):
        if x[0] == "phi" and x[1][0] == "exc" and any(y[0] == "call" and y[1] == GPM for y in T.subterms(x[3])):
            ok = "KeyError" in x[1][2] or "LookupError" in x[1][2] or "Exception" in x[1][2]
    ctx.check(ok, "GUARD", f"{f.qualname} / GUARD / partner lookup guarded by a KeyError handler", where,
              "handler type covers KeyError", "the handler around the partner lookup does not catch KeyError")
    ctx.clause("velocities have units length / time")
    try:
        d = rules.DimTyper(dim_seed, rules.BASIC_DIM_CALLS).dim(code)
        ctx.check(d == rules.Dim({"L": Fraction(1), "T": Fraction(-1)}), "DIM", f"{f.qualname} / DIM / L*T^-1", where,
                  f"dimension {d}", f"velocity has dimension {d}, expected L*T^-1")
    except rules.Inhomogeneous as e:
        ctx.violation("DIM", f"{f.qualname} / DIM / L*T^-1", where, f"velocity is dimensionally inhomogeneous: {e}")

    # ------------------------------------------------------------------ set_velocity_matrix
    g = repo.func(f"{FM}.set_velocity_matrix")
    ctx.touch(g)
    ts = T.sym(g.params[1]) if len(g.params) > 1 else T.sym("timeseries")
    ctx.clause("all right-hand sides are zero in static mode (every store is dominated by the dynamic-mode condition)")
    s0 = sym.summarize(repo, g.qualname)
    bstores = [e for e in s0.stores() if e.sub and e.attr and e.attr.startswith("$")]
    if len(bstores) < 2:
        raise AnalysisError("set_velocity_matrix: stores into the rhs vector not found - re-bind the anchor")
    bname = bstores[0].attr
    opt = ("opt", "b_matrix", T.NONE)
    dyn = T.b_or(T.cmp("Eq", opt, ("str", "velocity")), T.cmp("Eq", opt, ("str", "acceleration")))
    for e in bstores:
        have = set(e.conds())
        ok = ts in have and (dyn in have or T.cmp("Eq", opt, ("str", "velocity")) in have)
        ctx.check(ok, "GUARD", f"{g.qualname} / GUARD / rhs store only in dynamic mode ({T.show(T.alpha(e.key))[:40]})", ctx.where(g, e.node),
                  "dominated by `timeseries and b_matrix in {velocity, acceleration}`",
                  f"rhs entry written under {[T.show(c)[:80] for c in e.conds()]} - also reachable in static mode")
    # ... and static mode must get its zeros: no `raise` of the function is reachable outside the dynamic-mode condition (the
    # NotImplementedError for an unknown b_matrix sits behind `timeseries and b_matrix in {...}`, where it is dead)
    for e in [x for x in s0.events if x.kind == "raise"]:
        have = set(e.conds())
        ctx.check(ts in have and (dyn in have or T.cmp("Eq", opt, ("str", "velocity")) in have), "GUARD",
                  f"{g.qualname} / GUARD / static mode returns zeros, it does not raise (`{g.module.line(e.node.lineno)[:50]}`)", ctx.where(g, e.node),
                  "every raise is dominated by the dynamic-mode condition",
                  f"`{g.module.line(e.node.lineno)[:70]}` is reachable under {[T.show(c)[:60] for c in e.conds()]}: a static solve that is handed a time series raises instead of "
                  f"getting a zero right-hand side")
    init = [e for e in s0.events if e.kind == "assign" and "$" + e.name == bname and not e.loops() and not e.conds()]
    okz = bool(init) and init[0].value[0] == "call" and init[0].value[1] == "numpy.zeros"
    ctx.check(okz, "GUARD", f"{g.qualname} / GUARD / rhs starts as zeros", ctx.where(g), "b = np.zeros(...)", "the rhs vector does not start as zeros")

    ctx.config("b_matrix='velocity', adimensional_velocity=True")
    cfg = {"b_matrix": ("str", "velocity"), "adimensional_velocity": T.TRUE}
    s1 = sym.summarize(repo, g.qualname, config=cfg)
    st = [e for e in s1.stores() if e.sub and e.attr == bname]
    ctx.clause("a junction's velocity components are the right-hand sides of its own x- and y-equation")
    rows = {}
    V = None
    it = None
    for e in st:
        lp = e.loops()
        if len(lp) != 1:
            raise AnalysisError(f"{ctx.where(g, e.node)}: rhs store outside the junction loop")
        ro = rules.roles(lp[0])
        vid = ro.key_of()
        it = ro.base if ro.kind in ("items", "plain") else lp[0][2]
        row = ro.val if ro.kind == "items" else T.idx(T.attr(SELF, "map_vid_to_row"), vid)
        want = T.call(f"{TS}.calculate_velocity", (ts, vid, T.attr(T.attr(SELF, "frame"), "frame_id")))
        key = e.key
        if key[0] == "seq" and len(key[1]) == 2 and key[1][1] == T.num(0):
            key = key[1][0]
        off = T.sub(key, row)
        comp = e.value[2] if e.value[0] == "idx" and e.value[1] == want else None
        rows[e] = (off, comp)
        V = want
    it_ok = it == T.attr(SELF, "map_vid_to_row")
    offs = sorted((T.show(o), T.show(c) if c else "?") for o, c in rows.values())
    ctx.check(it_ok and offs == [("0", "0"), ("1", "1")], "ALIGN", f"{g.qualname} / ALIGN / velocity[0] -> row(junction), velocity[1] -> row(junction)+1",
              ctx.where(g), "loop over map_vid_to_row; b[row(vid)] = v(vid)[0], b[row(vid)+1] = v(vid)[1], v(vid) = calculate_velocity(vid, frame_id)",
              f"rhs placement (row offset, velocity component) is {offs} over {T.show(T.alpha(it))[:60] if it else '?'}; "
              f"expected [('0','0'),('1','1')] through the junction's own map_vid_to_row entry")

    ctx.clause("with adimensional velocities the rhs is divided by the frame's mean junction speed, which is what is reported")
    ret = s1.ret()
    if ret[0] != "seq" or len(ret[1]) != 2:
        raise AnalysisError("set_velocity_matrix no longer returns (b, average_velocity) - re-bind the anchor")
    b_out, avg = ret[1]
    b0 = ("bv", 0)
    if V is not None:
        V = T.substitute(V, {vid: b0})
    vv = ("map", V, b0, it, T.TRUE) if V is not None else None
    norms = ("map", T.call("numpy.linalg.norm", (("bv", 1),)), ("bv", 1), T.phi(ts, vv, T.seq(())), T.TRUE) if vv else None
    mean = T.call("mean", (norms,)) if norms else None
    nonempty = T.ige(T.call("len", (T.phi(ts, vv, T.seq(())),)), 1) if vv else None
    want_avg = T.phi(nonempty, mean, T.num(1)) if vv else None
    ok_avg = want_avg is not None and T.alpha(avg) == T.alpha(want_avg)
    ctx.check(ok_avg, "FORM", f"{g.qualname} / FORM / divisor = mean of norm over exactly the written vectors", ctx.where(g),
              "average_velocity = mean(norm(v) for v in the vectors written), 1 when none",
              f"reported average velocity is {T.show(T.alpha(avg))[:300]}")
    # b_out = b / avg * normalization
    bfinal = s1.env.get(bname[1:])
    norm_opt = ("opt", "velocity_normalization", T.num(1))
    ok_b = False
    pre = None
    for e in s1.events:
        if e.kind == "assign" and "$" + e.name == bname and not e.loops() and e.old is not None and e.value == T.mul(T.div(e.old, avg), norm_opt):
            ok_b = e.value == b_out
    ctx.check(ok_b, "FORM", f"{g.qualname} / FORM / b_out = b / average_velocity * velocity_normalization", ctx.where(g),
              "returned rhs = b / mean speed * velocity_normalization (default 1)",
              f"returned rhs is {T.show(T.alpha(b_out))[:200]} - not b / mean junction speed * velocity_normalization")

    # ------------------------------------------------------------------ reported system velocity
    h = repo.func("forsys.forsys.ForSys.get_system_velocity_per_frame")
    ctx.touch(h)
    sh = sym.summarize(repo, h.qualname)
    r = sh.ret()
    ok = False
    if r[0] == "map":
        elt, bv = r[1], r[2]
        want = T.idx(T.call(f"{FM}.set_velocity_matrix", (T.idx(T.attr(SELF, "force_matrices"), bv), T.attr(SELF, "mesh")),
                            (("adimensional_velocity", T.TRUE), ("b_matrix", ("str", "velocity")))), T.num(1))
        ok = elt == want
    ctx.check(ok, "FORM", f"{h.qualname} / FORM / reported value = second component of set_velocity_matrix(velocity, adimensional)", ctx.where(h),
              "per frame: force_matrices[t].set_velocity_matrix(mesh, b_matrix='velocity', adimensional_velocity=True)[1]",
              f"system velocity per frame is {T.show(T.alpha(r))[:300]}")

    # the value is read from a matrix assembled for this frame in this call, under the angle limit given
    bc = [e for e in sh.calls() if e.target == "forsys.forsys.ForSys.build_force_matrix"]
    okb = False
    if len(bc) == 1 and r[0] == "map":
        e = bc[0]
        lp = e.loops()
        kw = dict(e.kw)
        when_ = kw.get("when", e.args[0] if e.args else None)
        okb = e.recv == SELF and len(lp) == 1 and not e.conds() and when_ == ("bv", lp[0][1]) and kw.get("angle_limit") == T.sym("angle_limit") \
            and T.alpha(lp[0][2]) == T.alpha(r[3])
    ctx.check(okb, "ALIGN", f"{h.qualname} / ALIGN / every reported frame's matrix is rebuilt under the given angle limit before it is read", ctx.where(h),
              "for time in interval: build_force_matrix(when=time, angle_limit=angle_limit), unconditionally",
              "the reported system velocity can come from a matrix assembled by an earlier call (another angle limit, another junction set): "
              f"build calls {[(T.show(T.alpha(e.args))[:60], [T.show(c)[:80] for c in e.conds()]) for e in bc]}")
    rules.fresh_build(ctx, "force")

    # ------------------------------------------------------------------ solve uses that rhs
    sv = repo.func(f"{FM}.solve")
    ctx.touch(sv)
    ss = sym.summarize(repo, sv.qualname)
    calls = [e for e in ss.calls() if e.target == f"{FM}.set_velocity_matrix"]
    ok = len(calls) == 1 and calls[0].recv == SELF and not calls[0].conds() and calls[0].args and calls[0].args[0] == T.sym(sv.params[1]) \
        and any(k == "**" for k, _ in calls[0].kw)
    ctx.check(ok, "ALIGN", f"{sv.qualname} / ALIGN / rhs of the solve = set_velocity_matrix(timeseries, **kwargs)", ctx.where(sv),
              "solve forwards timeseries and all options", "solve does not build its rhs from set_velocity_matrix(timeseries, **kwargs)")


_T, _P, _S = "forsys/time_series.py", "forsys/fmatrix.py", "forsys/forsys.py"
PINNED = [
    ("time of the wrong frame (always t+1)", _T, "            tf = self.time_series[tt1].time", "            tf = self.time_series[initial_time + 1].time"),
    ("time difference reversed", _T, "/ (tf - ti)", "/ (ti - tf)"),
    ("no division by elapsed time", _T, "return (np.array([v1.x, v1.y]) - np.array([v0.x, v0.y])) / (tf - ti)", "return (np.array([v1.x, v1.y]) - np.array([v0.x, v0.y]))"),
    ("backward difference two frames back", _T, "            tt1 = initial_time - 1       ", "            tt1 = initial_time - 2       "),
    ("x and y swapped in the partner", _T, "(np.array([v1.x, v1.y]) - np.array([v0.x, v0.y]))", "(np.array([v1.y, v1.x]) - np.array([v0.x, v0.y]))"),
    ("missing partner placed at the origin", _T, "v1 = fvertex.Vertex(-1, v0.x, v0.y)", "v1 = fvertex.Vertex(-1, 0, 0)"),
    ("handler narrowed to IndexError", _T, "        except KeyError:\n            # fictious vertex to give velocity zero", "        except IndexError:\n            # fictious vertex to give velocity zero"),
    ("last-frame test off by one", _T, "        if initial_time == len(self.time_series) - 1:\n            # last time, use backward\n            if self.mapping",
     "        if initial_time == len(self.time_series):\n            # last time, use backward\n            if self.mapping"),
    ("y component into the next junction's row", _P, "b[j + 1, 0] = value[1]", "b[j + 2, 0] = value[1]"),
    ("components swapped in the rows", _P, "                b[j, 0] = value[0]\n                b[j + 1, 0] = value[1]", "                b[j, 0] = value[1]\n                b[j + 1, 0] = value[0]"),
    ("rhs written also in static mode", _P, '        if timeseries and (b_matrix == "velocity" or b_matrix == "acceleration"):', "        if timeseries:"),
    ("mean of squared speeds", _P, "average_velocity = np.mean([np.linalg.norm(vector) for vector in vector_of_vectors])", "average_velocity = np.mean([np.linalg.norm(vector)**2 for vector in vector_of_vectors])"),
    ("median speed", _P, "average_velocity = np.mean([np.linalg.norm(vector) for vector in vector_of_vectors])", "average_velocity = np.median([np.linalg.norm(vector) for vector in vector_of_vectors])"),
    ("rhs multiplied by the mean speed", _P, "b = (b / average_velocity) * self.velocity_normalization", "b = (b * average_velocity) * self.velocity_normalization"),
    ("system velocity reports the dimensional mode", _S, 'b_matrix="velocity",\n                                                                            adimensional_velocity=True)',
     'b_matrix="velocity",\n                                                                            adimensional_velocity=False)'),
    ("velocity row looked up with the frame id", _P, "                j = self.map_vid_to_row[vid]\n                b[j, 0]", "                j = self.map_vid_to_row.get(self.frame.frame_id, 0)\n                b[j, 0]"),
]
PRESERVING = [
    ("velocity written component-wise", _T, "return (np.array([v1.x, v1.y]) - np.array([v0.x, v0.y])) / (tf - ti)", "return np.array([(v1.x - v0.x) / (tf - ti), (v1.y - v0.y) / (tf - ti)])"),
    ("elapsed time in a local", _T, "return (np.array([v1.x, v1.y]) - np.array([v0.x, v0.y])) / (tf - ti)", "elapsed = tf - ti\n        return (np.array([v1.x, v1.y]) - np.array([v0.x, v0.y])) / elapsed"),
    ("loop over the dict itself", _P, "for vid in self.map_vid_to_row.keys():", "for vid in self.map_vid_to_row:"),
]

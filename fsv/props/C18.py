"""C18 - coarse-grained stress tensor: symmetric, linear, isotropic for pure pressure (DESIGN.md section 3, C18)."""
import ast
from fractions import Fraction

from .. import terms as T
from .. import sym, rules
from ..model import AnalysisError

EXPLANATION = ("Formula identity of the stored 2x2 tensor with [[(-sum p*A + Txx)/sum A, Txy/sum A],[Txy/sum A, (-sum p*A + Tyy)/sum A]], "
               "T_ab = sum stress*v_a*v_b/|v|, all sums over ONE selection (cells within the radius of the grid centre) - which gives symmetry "
               "(same value in both off-diagonal slots), joint linearity and -p*I for zero tensions; zero matrix exactly when the selected "
               "area is 0; selection centre == reported grid centre; writer and reader use the same, injective, composite key.")

ST = "forsys.stress_tensor.stress_tensor"
SELF = T.sym("self")


def key_shape(k):
    """-> ('fixed', width term) | ('sep',) | ('plain',) for a composite string key built from two integers"""
    if k[0] != "fstr":
        return None
    parts = k[1]
    fm = [p for p in parts if p[0] == "fmt"]
    lit = [p for p in parts if p[0] == "str" and p[1] != ""]
    if len(fm) != 2:
        return None
    if all(p[2] != T.NONE for p in fm):
        specs = {p[2] for p in fm}
        if len(specs) == 1:
            sp = next(iter(specs))
            if sp[0] == "fstr" and len(sp[1]) == 3 and sp[1][0] == ("str", "0") and sp[1][2] == ("str", "d") and sp[1][1][0] == "fmt":
                return ("fixed", sp[1][1][1])
        return None
    # a literal separator between the two numbers
    idx = [i for i, p in enumerate(parts) if p[0] == "fmt"]
    if any(parts[i][0] == "str" and parts[i][1] and not parts[i][1].isdigit() for i in range(idx[0] + 1, idx[1])):
        return ("sep",)
    return ("plain",)


def run(ctx):
    repo = ctx.repo
    f = repo.func(ST)
    ctx.touch(f)
    frame, grid, radius = (T.sym(p) for p in f.params[:3])
    s = sym.summarize(repo, f.qualname)
    st = [e for e in s.stores() if e.sub and e.attr and e.attr.startswith("$") and len(e.loops()) == 2]
    if len(st) != 2:
        raise AnalysisError(f"stress_tensor: expected two stores into the tensor dictionary, found {len(st)}")
    def entries(v):
        if v[0] == "call" and v[1] == "numpy.array" and v[2]:
            v = v[2][0]
        if v[0] in ("arr", "seq") and len(v[1]) == 2 and all(x[0] in ("arr", "seq") and len(x[1]) == 2 for x in v[1]):
            return [y for x in v[1] for y in x[1]]
        return None
    zero = [e for e in st if entries(e.value) == [T.ZERO] * 4]
    full = [e for e in st if e not in zero]
    if len(zero) != 1 or len(full) != 1:
        # the empty-neighbourhood branch stores a variable carried over from an earlier iteration of the grid loops
        stale = [e for e in st if any(x[0] == "lc" for x in T.subterms(e.value)) and entries(e.value) is None]
        rest = [e for e in st if e not in stale]
        if len(stale) == 1 and len(rest) == 1 and entries(rest[0].value) is not None:
            ctx.violation("STATE", f"{ST} / STATE / every grid cell's tensor is computed from that grid cell alone", ctx.where(f, stale[0].node),
                          f"under {[T.show(T.alpha(c))[:60] for c in stale[0].conds()]} the tensor stored for the grid cell is a variable carried over from the "
                          f"previous grid cell ({T.show(T.alpha(stale[0].value))[:80]}): a grid cell with no cell centre in reach repeats its predecessor's tensor instead of zeros")
        raise AnalysisError("stress_tensor: cannot tell the zero branch from the full branch")
    e = full[0]
    row, col = ("bv", e.loops()[0][1]), ("bv", e.loops()[1][1])
    rng_ok = all(g[2] in (T.call("range", (grid,)), T.call("range", (T.num(0), grid))) for g in e.loops())
    cells = T.call("forsys.stress_tensor.get_cells_df", (frame,))
    bedges = T.call("forsys.stress_tensor.get_big_edges_df", (frame,))

    def col_(df, name):
        return T.idx(df, ("str", name))
    xb = T.idx(T.call("numpy.histogram", (col_(cells, "xcm"), grid)), T.num(1))
    yb = T.idx(T.call("numpy.histogram", (col_(cells, "ycm"), grid)), T.num(1))

    def centre(b, k):
        return T.div(T.add(T.idx(b, T.add(k, T.num(1))), T.idx(b, k)), T.num(2))
    cx, cy = centre(xb, row), centre(yb, col)
    mind = T.mul(radius, T.sqrt(T.div(T.call("mean", (col_(cells, "area"),)), ("mod", "numpy.pi"))))
    d2 = T.add(T.power(T.sub(cx, col_(cells, "xcm")), Fraction(2)), T.power(T.sub(cy, col_(cells, "ycm")), Fraction(2)))
    SEL = T.idx(T.attr(cells, "loc"), T.cmp("LtE", d2, T.power(mind, Fraction(2))))
    A = T.call("sum", (col_(SEL, "area"),))
    b0 = ("bv", 0)
    r0 = T.idx(b0, T.num(1))
    P = T.neg(T.call("sum", (("map", T.mul(T.idx(r0, ("str", "pressure")), T.idx(r0, ("str", "area"))), b0, T.call(("m", "iterrows"), (SEL,)), T.TRUE),)))
    a, b = sorted([T.call(("m", "isin"), (col_(bedges, "cell1"), col_(SEL, "ids"))), T.call(("m", "isin"), (col_(bedges, "cell2"), col_(SEL, "ids")))], key=repr)
    ESEL = T.idx(T.attr(bedges, "loc"), T.call("bitor", (a, b)))

    def Tab(i, j):
        v = T.idx(r0, ("str", "vector"))
        summand = T.div(T.mul(T.idx(r0, ("str", "stress")), T.mul(T.idx(v, T.num(i)), T.idx(v, T.num(j)))), T.call("numpy.linalg.norm", (v,)))
        return ("sum", summand, b0, T.call(("m", "iterrows"), (ESEL,)), T.TRUE)
    sxx, syy, sxy = T.div(T.add(P, Tab(0, 0)), A), T.div(T.add(P, Tab(1, 1)), A), T.div(Tab(0, 1), A)
    spec = T.arr((T.arr((sxx, sxy)), T.arr((sxy, syy))))
    where = ctx.where(f, e.node)

    ctx.clause("symmetric by construction")
    v = e.value
    if v[0] == "call" and v[1] == "numpy.array":
        v = v[2][0]
    shape_ok = v[0] in ("arr", "seq") and len(v[1]) == 2 and all(x[0] in ("arr", "seq") and len(x[1]) == 2 for x in v[1])
    if not shape_ok:
        raise AnalysisError(f"{where}: stored tensor is not a 2x2 literal: {T.show(T.alpha(v))[:120]}")
    ctx.check(v[1][0][1][1] == v[1][1][1][0], "FORM", f"{ST} / FORM / off-diagonal entries are one value", where,
              "entries [0][1] and [1][0] have the same normal form", "entries [0][1] and [1][0] of the stored tensor differ: the tensor is not symmetric by construction")
    ctx.clause("jointly linear in pressures and tensions; -p*I for zero tensions and uniform p; one selection for numerator and denominator")
    ctx.check(rng_ok, "ALIGN", f"{ST} / ALIGN / one tensor per (row, column) in range(grid)^2", where, "both loops range over grid", "the grid loops do not range over range(grid)")
    vv = T.arr(tuple(T.arr(x[1]) if x[0] == "seq" else x for x in v[1]))
    rules.decide_equal(ctx, "FORM", f"{ST} / FORM / sigma = [[(-Sum p*A + Txx)/Sum A, Txy/Sum A],[Txy/Sum A, (-Sum p*A + Tyy)/Sum A]] over one selection", where,
                       vv, spec, "stored tensor")
    ctx.clause("zero matrix where no cell centre lies within the averaging radius")
    z = zero[0]
    ctx.check(z.conds() == [T.cmp("Eq", A, T.ZERO)] and e.conds() == [T.cmp("NotEq", A, T.ZERO)] and z.key == e.key, "GUARD",
              f"{ST} / GUARD / zero tensor iff the selected area is 0, under the same key", ctx.where(f, z.node),
              "total_area == 0 -> zeros; else the formula", f"zero branch under {[T.show(T.alpha(c))[:120] for c in z.conds()]}")

    ctx.clause("one tensor per grid cell: the composite key is injective and shared by writer and reader")
    ks = key_shape(e.key)
    if ks is None:
        raise AnalysisError(f"{where}: tensor key not understood: {T.show(T.alpha(e.key))[:160]}")
    if ks[0] == "plain":
        ctx.violation("KEY", f"{ST} / KEY / composite key of two integers is injective", where,
                      'f"{row}{column}" is ambiguous once an index has two digits ("1"+"11" == "11"+"1"): for grid >= 11 different grid cells share a key')
    else:
        ctx.ok("KEY", f"{ST} / KEY / composite key of two integers is injective", where, f"key shape {ks[0]}")
        if ks[0] == "fixed":
            w = ks[1]
            ctx.check(w == T.call("len", (T.call("str", (T.sub(grid, T.num(1)),)),)), "KEY", f"{ST} / KEY / field width fits the largest index", where,
                      "width = len(str(grid - 1))", f"field width is {T.show(w)}; indices up to grid-1 need len(str(grid - 1)) digits")
    parts = [p[1] for p in e.key[1] if p[0] == "fmt"]
    ctx.check(parts == [row, col], "KEY", f"{ST} / KEY / key = (row, column) in that order", where, "row first", f"key is built from {[T.show(p) for p in parts]}")

    # reader
    g = repo.func("forsys.frames.Frame.calculate_stress_tensor")
    ctx.touch(g)
    sg = sym.summarize(repo, g.qualname)
    coarsing, rad = T.sym(g.params[1]), T.sym(g.params[2])
    res = T.call(ST, (SELF, coarsing, rad))
    ps = [x for x in sg.stores("principal_stress") if x.sub]
    if not ps:
        raise AnalysisError("calculate_stress_tensor: store into principal_stress not found")

    def eig_of(val):
        """the eig(...) call a stored pair is made of: the call itself, or its pairs re-ordered consistently - values w[P] together with
        the eigenvector *columns* V[:, P] for one and the same P.  -> (eig call or None, description of an inconsistency or None)"""
        if val[0] == "call" and val[1] == "numpy.linalg.eig":
            return val, None
        if val[0] == "seq" and len(val[1]) == 2:
            w, v = val[1]
            if w[0] == "idx" and w[1][0] == "idx" and w[1][2] == T.num(0) and w[1][1][0] == "call" and w[1][1][1] == "numpy.linalg.eig":
                E, P = w[1][1], w[2]
                if v == T.idx(T.idx(E, T.num(1)), T.seq((("slice", ("none",), ("none",), ("none",)), P))):
                    return E, None
                if v[0] == "idx" and v[1] == T.idx(E, T.num(1)):
                    return E, (f"the eigenvalues are re-ordered by {T.show(T.alpha(P))[:80]} but the eigenvector matrix is indexed by "
                               f"{T.show(T.alpha(v[2]))[:80]} - its rows, or another order - so column i is no longer the eigenvector of value i")
        return None, None
    # one store per configuration of the function's options: each of them has to be the decomposition
    for extra in ps[1:]:
        E, bad = eig_of(extra.value)
        ctx.check(E is not None and bad is None and E == eig_of(ps[0].value)[0] and extra.key == ps[0].key, "FORM",
                  f"{g.qualname} / FORM / every option stores eigenvalues with their own eigenvectors", ctx.where(g, extra.node),
                  "pairs of eig(tensor), possibly re-ordered as (w[P], V[:, P])",
                  bad or f"under {[T.show(c)[:60] for c in extra.conds()]} the stored value is {T.show(T.alpha(extra.value))[:200]}")
    x = ps[0]
    E0, bad0 = eig_of(x.value)
    if bad0:
        ctx.violation("FORM", f"{g.qualname} / FORM / every option stores eigenvalues with their own eigenvectors", ctx.where(g, x.node), bad0, soft=True)
    lp = x.loops()
    if len(lp) != 2:
        raise AnalysisError("calculate_stress_tensor: the principal-stress store is not inside the (row, column) double loop")
    ro_r, ro_c = rules.roles(lp[0]), rules.roles(lp[1])
    if ro_r.pos is None or ro_c.pos is None:
        raise AnalysisError("calculate_stress_tensor: the double loop does not run over grid positions - re-bind the anchor")
    r2, c2 = ro_r.pos, ro_c.pos
    val = E0 if E0 is not None else x.value
    ok_eig = val[0] == "call" and val[1] == "numpy.linalg.eig" and val[2][0][0] == "idx" and val[2][0][1] == T.idx(res, T.num(0))
    rkey = val[2][0][2] if ok_eig else None
    wkey = T.substitute(e.key, {grid: coarsing, row: r2, col: c2})
    ctx.check(ok_eig and rkey == wkey, "KEY", f"{g.qualname} / KEY / reader uses the writer's key function", ctx.where(g, x.node),
              "stress_tensor[0][key(row, column)] with the same key construction",
              f"reader key {T.show(T.alpha(rkey))[:120] if rkey else '?'} differs from the writer's {T.show(T.alpha(wkey))[:120]}")
    ctx.clause("principal stresses are the eigen-decomposition of these tensors at the grid centres")
    # the loops enumerate the centre lists the writer returned; the key is the pair of centres at the loop positions
    cx, cy = T.idx(T.idx(res, T.num(1)), T.num(0)), T.idx(T.idx(res, T.num(1)), T.num(1))
    want_key = T.seq((ro_r.elem if ro_r.kind == "enumerate" else T.idx(cx, r2), ro_c.elem if ro_c.kind == "enumerate" else T.idx(cy, c2)))
    ok_rng = ro_r.base == cx and ro_c.base == cy
    ctx.check(x.key == want_key and ok_rng, "ALIGN", f"{g.qualname} / ALIGN / principal_stress[(centre_x[row], centre_y[column])] = eig(tensor(row, column))", ctx.where(g, x.node),
              "keyed by the reported grid centres of the same (row, column)", f"principal stress stored under {T.show(T.alpha(x.key))[:160]}")
    ps_reset = [y for y in sg.stores("principal_stress") if y.base == SELF and not y.sub]
    ctx.check(len(ps_reset) == 1 and ps_reset[0].value == ("dict", ()) and not ps_reset[0].conds() and sg.pos(ps_reset[0]) < sg.pos(x), "STATE",
              f"{g.qualname} / STATE / principal_stress starts empty on every call", ctx.where(g),
              "self.principal_stress = {} before the loop", "principal_stress is not reset by calculate_stress_tensor: entries of an earlier grid survive a later call")
    st_store = [y for y in sg.stores("stress_tensor") if y.base == SELF and not y.sub]
    ctx.check(len(st_store) == 1 and st_store[0].value == res, "ALIGN", f"{g.qualname} / ALIGN / tensors come from stress_tensor(self, coarsing, radius)", ctx.where(g),
              "same frame, same grid, same radius", "the tensors decomposed are not stress_tensor(self, coarsing, radius)")

    ctx.clause("the tensor is built from each cell's own pressure, area and centre and each interface's own tension and cells")
    cd = repo.func("forsys.stress_tensor.get_cells_df")
    ctx.touch(cd)
    scd = sym.summarize(repo, cd.qualname)
    fr = T.sym(cd.params[0])
    vals = T.call(("m", "values"), (T.attr(fr, "cells"),))
    b0 = ("bv", 0)
    want_cols = {
        "ids": T.attr(fr, "cells"),
        "xcm": ("map", T.idx(T.call("forsys.cell.Cell.get_cm", (b0,)), T.num(0)), b0, vals, T.TRUE),
        "ycm": ("map", T.idx(T.call("forsys.cell.Cell.get_cm", (b0,)), T.num(1)), b0, vals, T.TRUE),
        "area": ("map", T.call("abs", (T.call("forsys.cell.Cell.get_area", (b0,)),)), b0, vals, T.TRUE),
        "pressure": ("map", T.attr(b0, "pressure"), b0, vals, T.TRUE),
    }
    got_cols = {y.key[1]: y.value for y in scd.stores() if y.sub and y.key[0] == "str"}
    for name, want in want_cols.items():
        if name not in got_cols:
            raise AnalysisError(f"get_cells_df: column '{name}' not found - re-bind the anchor")
        got = got_cols[name]
        if name == "ids" and got in (T.call("list", (T.call(("m", "keys"), (want,)),)), T.call("list", (want,)), T.call(("m", "keys"), (want,))):
            got = want          # the keys of frame.cells in order, spelled list(cells.keys()) / list(cells) instead of an identity comprehension
        rules.decide_equal(ctx, "FORM", f"{cd.qualname} / FORM / column '{name}'", ctx.where(cd), got, want, f"column '{name}'")
    bd = repo.func("forsys.stress_tensor.get_big_edges_df")
    ctx.touch(bd)
    sbd = sym.summarize(repo, bd.qualname)
    fr = T.sym(bd.params[0])
    bvals = T.call(("m", "values"), (T.attr(fr, "big_edges"),))
    want_b = {
        "stress": ("map", T.attr(b0, "tension"), b0, bvals, T.TRUE),
        "cell1": ("map", T.idx(T.attr(b0, "own_cells"), T.num(0)), b0, bvals, T.TRUE),
    }
    got_b = {y.key[1]: y.value for y in sbd.stores() if y.sub and y.key[0] == "str"}
    for name, want in want_b.items():
        if name not in got_b:
            raise AnalysisError(f"get_big_edges_df: column '{name}' not found - re-bind the anchor")
        rules.decide_equal(ctx, "FORM", f"{bd.qualname} / FORM / column '{name}'", ctx.where(bd), got_b[name], want, f"column '{name}'")
    c2 = got_b.get("cell2")
    # the second own cell of the interface the row stands for: own_cells[1] of the loop element, however the "or -1" is spelled
    # (try / except IndexError around the append, or a length test in a conditional expression)
    ok2 = c2 is not None and any(y[0] == "idx" and y[2] == T.num(1) and y[1][0] == "attr" and y[1][2] == "own_cells" and
                                 any(z[0] == "bv" for z in T.subterms(y[1][1])) for y in T.subterms(c2))
    ctx.check(ok2, "FORM", f"{bd.qualname} / FORM / column 'cell2' = second own cell (or -1)", ctx.where(bd), "own_cells[1]", "column 'cell2' is not the interface's second cell")

    # returned bins_centers == selection centres
    ret = s.ret()
    ok_c = False
    if ret[0] == "seq" and len(ret[1]) >= 2 and ret[1][1][0] == "seq" and len(ret[1][1][1]) == 2:
        bx, by = ret[1][1][1]
        k = ("bv", 0)
        wantx = ("map", centre(xb, k), k, T.call("range", (T.sub(T.call("len", (xb,)), T.num(1)),)), T.TRUE)
        wanty = ("map", centre(yb, k), k, T.call("range", (T.sub(T.call("len", (yb,)), T.num(1)),)), T.TRUE)
        ok_c = T.alpha(bx) == T.alpha(wantx) and T.alpha(by) == T.alpha(wanty)
    ctx.check(ok_c, "ALIGN", f"{ST} / ALIGN / reported grid centres have the normal form of the selection centres", ctx.where(f),
              "bins_centers[axis][k] == (bins[k] + bins[k+1]) / 2 == centre used for the selection", "the reported grid centres are not the centres used to select cells")


_P, _F = "forsys/stress_tensor.py", "forsys/frames.py"
_KW = "{row:0{key_width}d}{column:0{key_width}d}"
PINNED = [
    ("pressure column falls back to the reference pressure", _P, "cell_pressures = [cell.pressure for _, cell in frame.cells.items()]", "cell_pressures = [cell.pressure or cell.gt_pressure for _, cell in frame.cells.items()]"),
    ("signed areas in the cell table", _P, "cell_areas = [abs(cell.get_area()) for _, cell in frame.cells.items()]", "cell_areas = [cell.get_area() for _, cell in frame.cells.items()]"),
    ("stress column from the reference tension", _P, "bedges_stress = [big_edge.tension for _, big_edge in frame.big_edges.items()]", "bedges_stress = [big_edge.gt for _, big_edge in frame.big_edges.items()]"),
    ("principal_stress never reset", _F, "        self.principal_stress = {}\n\n        key_width", "        self.principal_stress = getattr(self, 'principal_stress', {})\n\n        key_width"),
    ("F3 reintroduced: plain concatenated key", _P, 'sigmas[f"' + _KW + '"] = np.array([[sigma_xx', 'sigmas[f"{row}{column}"] = np.array([[sigma_xx'),
    ("asymmetric off-diagonal", _P, "np.array([[sigma_xx, sigma_xy], [sigma_xy, sigma_yy]], dtype=float)", "np.array([[sigma_xx, sigma_xy], [-sigma_xy, sigma_yy]], dtype=float)"),
    ("pressure term with the wrong sign", _P, "pressure_area_term = - np.sum(", "pressure_area_term = np.sum("),
    ("pressure enters the shear component", _P, "sigma_xy = tension_xy / total_area", "sigma_xy = (pressure_area_term + tension_xy) / total_area"),
    ("yy uses the xy tension", _P, "sigma_yy = (pressure_area_term + tension_yy) / total_area", "sigma_yy = (pressure_area_term + tension_xy) / total_area"),
    ("tension term not divided by the norm", _P, 'tension_xy += bedge["stress"] * (bedge["vector"][0] * bedge["vector"][1]) / vector_norm ', 'tension_xy += bedge["stress"] * (bedge["vector"][0] * bedge["vector"][1]) '),
    ("quadratic in the tension", _P, 'tension_xx += bedge["stress"] * (bedge["vector"][0] * bedge["vector"][0]) / vector_norm ', 'tension_xx += bedge["stress"] ** 2 * (bedge["vector"][0] * bedge["vector"][0]) / vector_norm '),
    ("denominator over all cells", _P, 'total_area = current_cell_mesh["area"].sum()', 'total_area = cells["area"].sum()'),
    ("strict radius test", _P, "<= min_distance**2]", "< min_distance**2]"),
    ("selection centre shifted by one bin", _P, "center = ((x_bins[row + 1] + x_bins[row]) / 2, (y_bins[column + 1] + y_bins[column]) / 2) ", "center = ((x_bins[row + 1] + x_bins[row]) / 2, (y_bins[column] + y_bins[column]) / 2) "),
    ("reader swaps row and column", _F, 'self.stress_tensor[0][f"' + _KW + '"]', 'self.stress_tensor[0][f"{column:0{key_width}d}{row:0{key_width}d}"]'),
    ("reader key width from a constant", _F, "        key_width = len(str(coarsing - 1))\n", "        key_width = 1\n"),
    ("zero branch for small areas", _P, "            if total_area == 0:\n", "            if total_area <= 1:\n"),
    ("principal stress keyed by swapped centres", _F, "self.principal_stress[(self.stress_tensor[1][0][row], \n                                            self.stress_tensor[1][1][column])]", "self.principal_stress[(self.stress_tensor[1][1][row], \n                                            self.stress_tensor[1][0][column])]"),
    ("principal stresses sorted, eigenvector matrix re-ordered by rows", _F, "                                            self.stress_tensor[1][1][column])] = principal_component",
     "                                            self.stress_tensor[1][1][column])] = (principal_component[0][np.argsort(principal_component[0])], principal_component[1][np.argsort(principal_component[0])])"),
]
PRESERVING = [
    ("principal stresses sorted together with their eigenvector columns", _F, "                                            self.stress_tensor[1][1][column])] = principal_component",
     "                                            self.stress_tensor[1][1][column])] = (principal_component[0][np.argsort(principal_component[0])], principal_component[1][:, np.argsort(principal_component[0])])"),
    ("reductions spelled as numpy functions", _P, 'total_area = current_cell_mesh["area"].sum()', 'total_area = np.sum(current_cell_mesh["area"])'),
    ("mean area through np.mean", _P, 'min_distance = radius * np.sqrt(cells["area"].mean() / np.pi)', 'min_distance = radius * np.sqrt(np.mean(cells["area"]) / np.pi)'),
    ("key with a separator", _P, 'sigmas[f"' + _KW + '"] = np.array([[sigma_xx', 'sigmas[f"' + _KW + '"] = np.array([[sigma_xx'),
    ("reader key spelled with str.format", "forsys/frames.py", 'self.stress_tensor[0][f"{row:0{key_width}d}{column:0{key_width}d}"]',
     'self.stress_tensor[0]["{:0{w}d}{:0{w}d}".format(row, column, w=key_width)]'),
    ("reader key spelled with zfill and concatenation", "forsys/frames.py", 'self.stress_tensor[0][f"{row:0{key_width}d}{column:0{key_width}d}"]',
     'self.stress_tensor[0][str(row).zfill(key_width) + str(column).zfill(key_width)]'),
    ("centre written the other way round", _P, "center = ((x_bins[row + 1] + x_bins[row]) / 2, (y_bins[column + 1] + y_bins[column]) / 2) ", "center = (0.5 * (x_bins[row] + x_bins[row + 1]), 0.5 * (y_bins[column] + y_bins[column + 1])) "),
    ("diagonal with the common factor pulled out", _P, "sigma_xx = (pressure_area_term + tension_xx) / total_area", "sigma_xx = pressure_area_term / total_area + tension_xx / total_area"),
]

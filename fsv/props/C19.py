"""C19 - tessellation lattices match the Voronoi diagram of the given centres (DESIGN.md section 3, C19)."""
import ast
from fractions import Fraction

from .. import terms as T
from .. import sym, rules, cyclic
from ..model import AnalysisError

EXPLANATION = ("Rounding digits of the corner points (CONST), vertices and edges interned by rounded position / id pair with ids starting at 1 "
               "(sign encoding needs non-zero ids), reversed use encoded by a negative id and decoded consistently (sign <-> which end, sign <-> "
               "reversal), orientation key from the shoelace sign, and DIV: no division by a difference of single (rounded) coordinates without a "
               "non-zero guard on any path reachable from create_lattice_elements (such a difference is zero for every axis-parallel ridge).")

TE = "forsys.tessellation"


# ---------------------------------------------------------------------------------------------- DIV rule
def single_coordinate(t):
    """a single coordinate of a point: X[k] (possibly rounded) - not a norm, length, count or time difference"""
    if t[0] == "call" and t[1] == "round" and t[2]:
        return single_coordinate(t[2][0])
    if t[0] == "idx" and t[2][0] == "num":
        return True
    if t[0] == "attr" and t[2] in ("x", "y"):
        return True
    return False


def coordinate_difference(t):
    if t[0] != "poly" or len(t[1]) != 2:
        return False
    (m1, c1), (m2, c2) = t[1]
    if c1 + c2 != 0 or abs(c1) != 1:
        return False
    return all(len(m) == 1 and m[0][1] == 1 and single_coordinate(m[0][0]) for m in (m1, m2))


def divisions_by_coordinate_difference(repo, func):
    """[(event, denominator, guarded)] for every value computed in `func`"""
    s = sym.summarize(repo, func.qualname)
    out = []
    seen = set()

    def scan(t, ev):
        for x in T.subterms(t):
            if x[0] == "poly":
                for m, c in x[1]:
                    for a, e in m:
                        if e < 0 and coordinate_difference(a):
                            key = (a, getattr(ev.node, "lineno", 0))
                            if key in seen:
                                continue
                            seen.add(key)
                            guarded = any(g in (T.cmp("NotEq", a, T.ZERO), T.cmp("NotEq", T.neg(a), T.ZERO)) for g in ev.conds())
                            out.append((ev, a, guarded))
    for ev in s.events:
        for field in ("value", "term"):
            t = getattr(ev, field, None)
            if isinstance(t, tuple):
                scan(t, ev)
    return out


def run(ctx):
    repo = ctx.repo
    cle = repo.func(f"{TE}.create_lattice_elements")
    ctx.touch(cle)

    # ================================================================== DIV
    ctx.clause("grid-aligned centres (axis-parallel ridges): no unguarded division by a difference of single coordinates")
    # standing examples: the rule must fire on line_eq analysed directly and must see the two guarded twins in wkt.reduce_amount
    probe_pos = repo.functions.get(f"{TE}.line_eq")
    if probe_pos is not None:
        hits = divisions_by_coordinate_difference(repo, probe_pos)
        if not any(not g for _, _, g in hits):
            raise AnalysisError("DIV rule self-check: line_eq (slope over a rounded x difference) no longer matches the rule")
    neg = repo.functions.get("forsys.wkt.reduce_amount")
    if neg is not None:
        hits = divisions_by_coordinate_difference(repo, neg)
        ctx.rule_instances["DIV:guarded negative examples (wkt.reduce_amount)"] = dict(found=sum(1 for _, _, g in hits if g), frozen_minimum=2)
        if any(not g for _, _, g in hits):
            pass        # not this property's scope
    reach = sorted(q for q in repo.reachable([cle.qualname]) if q.startswith(TE + "."))
    s_cle = sym.summarize(repo, cle.qualname)
    n = 0
    for q in reach:
        fq = repo.functions[q]
        ctx.touch(fq)
        n += 1
        hits = divisions_by_coordinate_difference(repo, fq)
        bad = [(ev, a) for ev, a, g in hits if not g]
        for ev, a in bad:
            ctx.violation("DIV", f"{q} / DIV / division by an unguarded difference of single coordinates", ctx.where(fq, ev.node),
                          f"`{fq.module.line(ev.node.lineno)}` divides by {T.show(T.alpha(a))[:100]}, which is exactly zero for every ridge parallel to the y axis "
                          f"(and for any ridge shorter than the rounding step) - reachable from create_lattice_elements")
        if not bad:
            ctx.ok("DIV", f"{q} / DIV / no unguarded coordinate-difference denominator", ctx.where(fq), f"{len(hits)} guarded")
    ctx.count("DIV", "functions reachable from create_lattice_elements", n, 4)

    # ================================================================== every region is examined; cells for all bounded regions
    ctx.clause("one cell for every bounded region below the cut-off: every region is examined and no bounded region is skipped")
    n_it = 0
    for q in reach:
        fq = repo.functions[q]
        sq = sym.summarize(repo, q)
        for e in sq.events:
            if not (e.kind == "call" and isinstance(e.fname, tuple) and e.fname[1] in ("remove", "pop", "insert", "append", "clear") and e.recv is not None):
                continue
            n_it += 1
            for g in e.loops():
                it = g[2]
                # the receiver is the (loop-carried) list whose initial value is being iterated
                recv = e.recv
                init = sq.loop_init.get((recv[1], recv[2])) if recv[0] == "lc" else recv
                if init is not None and it == init and e.fname[1] in ("remove", "pop", "insert", "clear"):
                    ctx.violation("ITER", f"{q} / ITER / list mutated while it is iterated", ctx.where(fq, e.node),
                                  f"`{fq.module.line(e.node.lineno)}` removes from the list the enclosing loop iterates: the element after each removed one is never examined")
    ctx.ok("ITER", f"{TE} / ITER / list mutations inside loops scanned", ctx.where(cle), f"{n_it} mutator calls examined")
    ri = repo.func(f"{TE}.remove_infinite_regions")
    sri = sym.summarize(repo, ri.qualname)
    tess, regs, md = (T.sym(p) for p in ri.params[:3])
    rm = [e for e in sri.events if e.kind == "call" and isinstance(e.fname, tuple) and e.fname[1] == "remove" and e.loops()]
    ok = False
    for e in rm:
        it = e.loops()[-1][2]
        if it[0] == "map" and it[3] == regs and it[1] == it[2]:
            b = it[2]
            poly = ("map", T.call("list", (T.idx(T.attr(tess, "vertices"), ("bv", 1)),)), ("bv", 1), b, T.TRUE)
            far = T.cmp("Gt", T.call("max", (T.call(f"{TE}.distance_matrix", (poly,)),)), md)
            want = T.b_and(T.ige(T.call("len", (b,)), 1), T.b_not(("in", T.num(-1), b)), far)
            ok = T.alpha(it[4]) == T.alpha(want) and e.args == (("bv", e.loops()[-1][1]),)
    ctx.check(ok, "GUARD", f"{ri.qualname} / GUARD / removed iff bounded and its largest corner distance exceeds max_distance", ctx.where(ri),
              "regions with len != 0, no -1 and max(distance_matrix) > max_distance are collected first and removed afterwards",
              "the over-size filter no longer removes exactly the bounded regions whose diameter exceeds max_distance")
    cellst = [e for e in s_cle.stores() if e.sub and e.attr and e.attr.startswith("$") and any(x[0] == "call" and x[1] == f"{TE}.get_cell_area_sign" for x in T.subterms(e.key))]
    okc = bool(cellst)
    for e in cellst:
        c = ("bv", e.loops()[0][1])
        okc = okc and set(e.conds()) == {T.ige(T.call("len", (c,)), 1), T.b_not(("in", T.num(-1), c))}
    ctx.check(okc, "GUARD", f"{cle.qualname} / GUARD / a cell is built for every non-empty region without an infinite corner", ctx.where(cle),
              "guard = len(c) != 0 and -1 not in c", f"cells are built under {[T.show(T.alpha(x))[:80] for e in cellst for x in e.conds()]}: bounded regions (e.g. triangles) are skipped")

    # ================================================================== rounding
    ctx.clause("corner points are rounded to three decimals")
    s = sym.summarize(repo, cle.qualname)
    rounds = [e for e in s.calls() if e.fname in ("round", "numpy.around", "numpy.round") or e.fname == ("m", "round")]
    digits = []
    for e in rounds:
        d = e.args[-1] if len(e.args) >= 2 else dict(e.kw).get("decimals", dict(e.kw).get("ndigits"))
        digits.append(d)
        ctx.check(d == T.num(3), "CONST", f"{cle.qualname} / CONST / rounding to 3 decimals (`{cle.module.line(e.node.lineno)[:50]}`)", ctx.where(cle, e.node),
                  "3 digits", f"a corner coordinate is rounded to {T.show(d) if d else 'an unspecified number of'} decimals; the statement says three")
    ctx.count("CONST", "roundings in create_lattice_elements", len(rounds), 4)
    # x from component 0, y from component 1 of the same two Voronoi vertices
    ctx.clause("a ridge's end points come from the same two Voronoi vertices for x (component 0) and y (component 1)")
    pts = [e for e in s.events if e.kind == "assign" and e.value[0] == "call" and e.value[1] == "list" and e.value[2] and e.value[2][0][0] == "call" and e.value[2][0][1] == "zip"]
    ok = False
    if pts:
        z = pts[-1].value[2][0][2]
        if len(z) == 2:
            def comps(t):
                return sorted({int(x[2][1]) for x in T.subterms(t) if x[0] == "idx" and x[2][0] == "num" and x[1][0] == "idx" and x[1][1][0] == "attr" and x[1][1][2] == "vertices"})
            strip = lambda t: T.transform(t, lambda x: ("C",) if (x[0] == "num" and x[1] in (0, 1)) else None)
            ok = comps(z[0]) == [0] and comps(z[1]) == [1] and strip(z[0]) == strip(z[1])
    ctx.check(ok, "SIB", f"{cle.qualname} / SIB / x- and y-interpolation are twins (components 0 and 1 of the same vertices)", ctx.where(cle),
              "zip(x(...[0]), y(...[1])) with identical structure", "the x and y coordinates of a ridge's end points are not computed as twins from the same Voronoi vertices")

    # ================================================================== interning and sign encoding
    ctx.clause("vertices are interned by rounded position; ids start at 1")
    gv = repo.func(f"{TE}.get_vertex_number")
    ctx.touch(gv)
    sv = sym.summarize(repo, gv.qualname)
    vtx, vs = T.sym(gv.params[0]), T.sym(gv.params[1])
    vals, keys = T.call(("m", "values"), (vs,)), T.call(("m", "keys"), (vs,))
    known = T.idx(T.call("list", (keys,)), T.call(("m", "index"), (T.call("list", (vals,)), vtx)))
    new = T.phi(T.ige(T.call("len", (vs,)), 1), T.add(T.call("max", (keys,)), T.num(1)), T.num(1))
    rules.decide_equal(ctx, "SIB", f"{gv.qualname} / SIB / existing id for a known position, else max+1 (first id 1)", ctx.where(gv), sv.ret(),
                       T.phi(("in", vtx, vals), known, new), "vertex number")
    st = [e for e in sv.stores() if e.sub]
    ctx.check(len(st) == 1 and st[0].key == new and st[0].value == vtx and st[0].conds() == [T.b_not(("in", vtx, vals))], "SIB",
              f"{gv.qualname} / SIB / new position registered under the returned id", ctx.where(gv), "vertices[new id] = position, only when unknown",
              "a new position is not registered under the id that is returned")

    # interning identifies corners by their ROUNDED position, so two different Voronoi corners (the split halves of a nearly
    # four-fold point, less than 1e-3 apart) can get one number: the segment between them must not become a mesh edge
    ctx.clause("the mesh is consistent: no mesh edge joins a vertex to itself (two corners that round to the same point)")
    enum_calls = [e for e in s.calls() if e.target == f"{TE}.get_enum" and e.args and e.args[0][0] == "seq" and len(e.args[0][1]) == 2]
    if not enum_calls:
        raise AnalysisError("create_lattice_elements: registration of a ridge segment through get_enum([a, b], ...) not found - re-bind the anchor")
    for e in enum_calls:
        n1, n2 = e.args[0][1]
        accepted = {T.cmp("NotEq", n1, n2), T.b_not(T.cmp("Eq", n1, n2)), T.cmp("NotEq", n2, n1), T.b_not(T.cmp("Eq", n2, n1))}
        for a_, b_ in ((n1, n2),):
            if a_[0] == "call" and b_[0] == "call" and a_[1] == b_[1] == f"{TE}.get_vertex_number" and a_[2][1:] == b_[2][1:]:
                p1, p2 = a_[2][0], b_[2][0]
                accepted |= {T.cmp("NotEq", p1, p2), T.b_not(T.cmp("Eq", p1, p2)), T.cmp("NotEq", p2, p1), T.b_not(T.cmp("Eq", p2, p1))}
        ctx.check(bool(accepted & set(e.conds())), "GUARD", f"{cle.qualname} / GUARD / a segment becomes an edge only between two different vertex numbers",
                  ctx.where(cle, e.node), "dominated by `vertex_number_1 != vertex_number_2`",
                  "get_enum([a, b]) is reached without a != b: corners are numbered by their position rounded to three decimals, so two Voronoi corners "
                  "closer than 1e-3 (the two halves of a nearly four-fold point of a slightly irregular grid) get the same number and the segment between "
                  "them is registered as an edge from a vertex to itself - SmallEdge rejects it with an AssertionError and no lattice is built")

    ctx.clause("neighbouring regions share the mesh edge of their common ridge; reversed use is encoded by a negative id")
    ge = repo.func(f"{TE}.get_enum")
    ctx.touch(ge)
    se = sym.summarize(repo, ge.qualname)
    edge, es = T.sym(ge.params[0]), T.sym(ge.params[1])
    vals, keys = T.call(("m", "values"), (es,)), T.call(("m", "keys"), (es,))
    rev = T.idx(edge, ("slice", T.NONE, T.NONE, T.num(-1)))

    def K(x):
        return T.idx(T.call("list", (keys,)), T.call(("m", "index"), (T.call("list", (vals,)), x)))
    new = T.phi(T.ige(T.call("len", (es,)), 1), T.add(T.call("max", (keys,)), T.num(1)), T.num(1))
    want = T.phi(("in", edge, vals), K(edge), T.phi(("in", rev, vals), T.neg(K(rev)), new))
    rules.decide_equal(ctx, "SIB", f"{ge.qualname} / SIB / +id for the stored direction, -id for the reversed pair, else max+1 (first id 1)", ctx.where(ge), se.ret(), want, "edge number")
    st = [e for e in se.stores() if e.sub]
    ctx.check(len(st) == 1 and st[0].key == new and st[0].value == T.seq((T.idx(edge, T.num(0)), T.idx(edge, T.num(1)))) and
              set(st[0].conds()) == {T.b_not(("in", edge, vals)), T.b_not(("in", rev, vals))}, "SIB",
              f"{ge.qualname} / SIB / new pair registered in the given direction under the returned id", ctx.where(ge), "edges[new id] = [a, b]",
              "a new vertex pair is not registered (in the given direction) under the id that is returned")

    cl = repo.func(f"{TE}.create_lattice")
    ctx.touch(cl)
    sc = sym.summarize(repo, cl.qualname)
    ctx.clause("sign <-> direction when the lattice is built: positive id -> first vertex, negative id -> last vertex, negative cell key -> reversed cycle")
    ap = [e for e in rules.additions(sc) if len(e.loops()) == 2]
    ok = False
    for e in ap:
        eid = ("bv", e.loops()[1][1])
        a = e.args[0]
        which = T.phi(T.cmp("Gt", eid, T.ZERO), T.num(0), T.num(-1))
        for x in T.subterms(a):
            if x[0] == "idx" and x[2] == which and x[1][0] == "call" and x[1][1] == "forsys.edge.SmallEdge.get_vertices_id":
                obj = x[1][2][0]
                ok = obj[0] == "idx" and obj[2] == T.call("abs", (eid,))
    ctx.check(ok, "SIB", f"{cl.qualname} / SIB / cycle vertex = edges[abs(id)].get_vertices_id()[0 if id > 0 else -1]", ctx.where(cl),
              "tail vertex of the signed edge", "the vertex taken from a signed edge reference is not its first vertex for positive and its last vertex for negative ids")
    cs = [e for e in sc.stores() if e.sub and e.value[0] == "call" and e.value[1] == "new:forsys.cell.Cell"]
    ok = False
    for e in cs:
        cid = T.idx(("bv", e.loops()[0][1]), T.num(0))
        a = e.value[2]
        if len(a) >= 2 and a[1][0] == "phi":
            c, rv, fw = a[1][1], a[1][2], a[1][3]
            if c == T.cmp("Lt", cid, T.ZERO) and rv == T.idx(fw, ("slice", T.NONE, T.NONE, T.num(-1))):
                ok = e.key == T.call("abs", (cid,)) and a[0] == T.call("abs", (cid,))
    ctx.check(ok, "SIB", f"{cl.qualname} / SIB / cell cycle reversed iff its key is negative; stored under abs(key)", ctx.where(cl),
              "vertices[::-1] if cid < 0", "the cycle of a cell with a negative key is not reversed (or the cell is not stored under abs(key))")
    all_e = rules.entries(sc)
    for nm in sorted({a_.name for a_ in sc.events if a_.kind == "assign"}):
        all_e += [en for en in rules.entries(sc, name=nm) if en.how != "store"]
    es_ = [e for e in all_e if e.loops() and e.elem[0] == "call" and e.elem[1] == "new:forsys.edge.SmallEdge"]
    ok = False
    for e in es_:
        ro = rules.roles(e.loops()[-1])
        if ro.kind != "items":
            continue
        eid, pair = ro.key, ro.val
        a = e.elem[2]
        ok = e.key == T.call("abs", (eid,)) and a[0] == T.call("abs", (eid,)) and a[1][0] == "idx" and a[1][2] == T.idx(pair, T.num(0)) \
            and a[2][0] == "idx" and a[2][2] in (T.idx(pair, T.num(-1)), T.idx(pair, T.num(1)))
    ctx.check(ok, "SIB", f"{cl.qualname} / SIB / SmallEdge(abs(id), vertices[pair[0]], vertices[pair[-1]])", ctx.where(cl),
              "v1 = first id of the registered pair", "mesh edges are not built from the registered (first, last) vertex pair under abs(id)")

    ctx.clause("all cells are stored in the same rotational sense: key = -cnum * sign of the shoelace area, cnum from 1")
    st = [e for e in s.stores() if e.sub and e.attr and e.attr.startswith("$") and any(x[0] == "call" and x[1] == f"{TE}.get_cell_area_sign" for x in T.subterms(e.key))]
    ok = False
    for e in st:
        k = e.key
        signs = [x for x in T.subterms(k) if x[0] == "call" and x[1] == f"{TE}.get_cell_area_sign"]
        cn = [x for x in T.subterms(k) if x[0] == "lc"]
        if len(signs) >= 1 and cn:
            ok = k == T.neg(T.mul(cn[0], signs[0]))
            cname = cn[0][1]
            inits = [a for a in s.events if a.kind == "assign" and a.name == cname and not a.loops()]
            incs = [a for a in s.events if a.kind == "assign" and a.name == cname and a.loops()]
            ok = ok and len(inits) == 1 and inits[0].value == T.num(1) and len(incs) == 1 and incs[0].value == T.add(cn[0], T.num(1)) \
                and set(incs[0].conds()) == set(e.conds())
    ctx.check(ok, "SIB", f"{cle.qualname} / SIB / cell key = -cnum * area_sign, cnum = 1, 2, ...", ctx.where(cle),
              "non-zero counter so the sign is recoverable", "the cell key is not -cnum*area_sign with cnum counting from 1 alongside the stores")
    ga = repo.func(f"{TE}.get_cell_area")
    ctx.touch(ga)
    sa = sym.summarize(repo, ga.qualname)
    cs_ = cyclic.to_csum(sa.ret())
    cv, vv = T.sym(ga.params[0]), T.sym(ga.params[1])
    if cs_ is None:
        raise AnalysisError("tessellation.get_cell_area is not a cyclic sum - re-bind the anchor")
    it, summand = cs_

    def P(k, c):
        return T.idx(T.idx(vv, cyclic.AT(k)), T.num(c))
    spec = cyclic.normalise(T.mul(T.num(Fraction(1, 2)), T.sub(T.mul(P(0, 0), P(-1, 1)), T.mul(P(0, 1), P(-1, 0)))))
    ctx.check(it == cv, "FORM", f"{ga.qualname} / FORM / shoelace over the given cycle", ctx.where(ga), "cyclic sum over cell_vertices", "not a cyclic sum over the given vertex cycle")
    rules.decide_equal(ctx, "FORM", f"{ga.qualname} / FORM / same shoelace convention as Cell.get_area", ctx.where(ga), summand, spec, "area summand")
    gs = repo.func(f"{TE}.get_cell_area_sign")
    ctx.touch(gs)
    sgs = sym.summarize(repo, gs.qualname)
    want = T.call("int", (T.call("numpy.sign", (T.call(ga.qualname, tuple(T.sym(p) for p in gs.params[:2])),)),))
    rules.decide_equal(ctx, "FORM", f"{gs.qualname} / FORM / int(sign(area))", ctx.where(gs), sgs.ret(), want, "area sign")


_P = "forsys/tessellation.py"
PINNED = [
    ("F18 reintroduced: zero-length segments registered as edges", _P, "                    if vertex_number_1 == vertex_number_2:\n                        # two corners that round to the same point: no edge of zero length\n                        continue\n", ""),
    ("over-size regions removed while iterating", _P, "            if np.max(matrix) > max_distance:\n                to_delete.append(c)\n    for c in to_delete:\n        regions.remove(c)", "            if np.max(matrix) > max_distance:\n                regions.remove(c)"),
    ("triangular regions get no cell", _P, "        if len(c) != 0 and -1 not in c:\n            # add first to close the cell_vertices", "        if len(c) > 3 and -1 not in c:\n            # add first to close the cell_vertices"),
    ("cut-off compares the mean distance", _P, "            if np.max(matrix) > max_distance:", "            if np.mean(matrix) > max_distance:"),
    ("F5 reintroduced: slope-intercept interpolation of y", _P, """                y_coordinate = np.around(np.linspace(round(tessellation.vertices[c[ii]][1], 3),
                                                    round(tessellation.vertices[c[ii + 1]][1], 3), 2), 3)""",
     """                y_coordinate = np.around(line_eq(tessellation.vertices[c[ii]],
                                                    tessellation.vertices[c[ii + 1]],
                                                    x_coordinate), 3)"""),
    ("corner points rounded to two decimals", _P, "x_coordinate = np.around(np.linspace(round(tessellation.vertices[c[ii]][0], 3),", "x_coordinate = np.around(np.linspace(round(tessellation.vertices[c[ii]][0], 2),"),
    ("y from component 0", _P, "round(tessellation.vertices[c[ii + 1]][1], 3), 2), 3)", "round(tessellation.vertices[c[ii + 1]][0], 3), 2), 3)"),
    ("edge ids start at 0", _P, "            enum = max(edges.keys()) + 1\n        else:\n            enum = 1", "            enum = max(edges.keys()) + 1\n        else:\n            enum = 0"),
    ("vertex ids start at 0", _P, "            vertex_number = max(vertices.keys()) + 1\n        else:\n            vertex_number = 1", "            vertex_number = max(vertices.keys()) + 1\n        else:\n            vertex_number = 0"),
    ("reversed pair returns the positive id", _P, "enum = - list(edges.keys())[list(edges.values()).index(edge[::-1])]", "enum = list(edges.keys())[list(edges.values()).index(edge[::-1])]"),
    ("negative id also takes the first vertex", _P, "which = 0 if eid > 0 else -1", "which = 0 if eid > 0 else 0"),
    ("cycle reversed for positive keys", _P, "vertices_in_cell = vertices_in_cell[::-1] if cid < 0 else vertices_in_cell", "vertices_in_cell = vertices_in_cell[::-1] if cid > 0 else vertices_in_cell"),
    ("cell key loses the orientation", _P, "new_cells[-1 * cnum * area_sign] = temp_for_cell", "new_cells[cnum] = temp_for_cell"),
    ("cell counter starts at 0", _P, "    cnum = 1\n", "    cnum = 0\n"),
    ("area sign convention flipped", _P, "return 0.5 * (np.dot(x, np.roll(y, 1)) - np.dot(y, np.roll(x, 1)))\n\n\ndef get_vertex_number", "return 0.5 * (np.dot(y, np.roll(x, 1)) - np.dot(x, np.roll(y, 1)))\n\n\ndef get_vertex_number"),
    ("new pair registered reversed", _P, "        edges[enum] = [edge[0], edge[1]]", "        edges[enum] = [edge[1], edge[0]]"),
    ("vertex registered under a different id", _P, "        vertices[vertex_number] = vertex\n", "        vertices[vertex_number + 1] = vertex\n"),
]
PRESERVING = [
    ("zero-length guard nested instead of `continue`", _P, "                    if vertex_number_1 == vertex_number_2:\n                        # two corners that round to the same point: no edge of zero length\n                        continue\n\n                    enum = get_enum([vertex_number_1, vertex_number_2], new_edges)\n\n                    temp_big_edge.append(enum)\n                    temp_for_cell.append(enum)\n                    temp_vertex_for_cell.append(vertex_number_1)\n                    temp_vertex_for_cell.append(vertex_number_2)\n",
     "                    if vertex_number_1 != vertex_number_2:\n                        enum = get_enum([vertex_number_1, vertex_number_2], new_edges)\n                        temp_big_edge.append(enum)\n                        temp_for_cell.append(enum)\n                        temp_vertex_for_cell.append(vertex_number_1)\n                        temp_vertex_for_cell.append(vertex_number_2)\n"),
    ("zero-length guard on the rounded positions", _P, "                    if vertex_number_1 == vertex_number_2:", "                    if v0 == v1:"),
    ("sign test spelled the other way", _P, "which = 0 if eid > 0 else -1", "which = -1 if eid <= 0 else 0"),
]

"""C17 - myosin quantification is a normalised, linear window statistic of the image (DESIGN.md section 3, C17)."""
import ast
from fractions import Fraction

from .. import terms as T
from .. import sym, rules
from ..model import AnalysisError

EXPLANATION = ("Formula obligations on evaluator terms: (2*layers+1)^2 window offsets added per axis, pixel position = vertex*rescale+offset "
               "with matching axis indices in both code paths (x/y twins), statistic = mean over vertices of the window median, integrated "
               "statistic = sum over a SET of band pixels / polyline length, linear in the pixel values, 'average' divides by the mean of "
               "the same dictionary, the result is keyed and written back by list position (KEY).")

MY = "forsys.myosin"
B0 = ("bv", 0)


def opt(name, a, b):
    return ("opt", name, T.seq((T.num(a), T.num(b))))


def run(ctx):
    repo = ctx.repo
    # ------------------------------------------------------------------ window
    f = repo.func(f"{MY}.get_layer_elements")
    ctx.touch(f)
    s = sym.summarize(repo, f.qualname)
    pos, layers = T.sym(f.params[0]), T.sym(f.params[1])
    rng = T.call("numpy.arange", (T.neg(layers), T.add(layers, T.num(1))))
    # canonical form of a product / a double loop / a nested comprehension: for i in rng: for k in rng
    B1 = ("bv", 1)
    want = ("flatmap", ("map", T.seq((T.add(T.idx(pos, T.num(0)), B0), T.add(T.idx(pos, T.num(1)), B1))), B1, rng, T.TRUE), B0, rng, T.TRUE)
    ctx.clause("the window is the (2*layers+1)^2 block of pixels centred on the position")
    rules.decide_equal(ctx, "FORM", f"{f.qualname} / FORM / offsets arange(-layers, layers+1) x itself added per axis", ctx.where(f), s.ret(), want, "window")

    # ------------------------------------------------------------------ position
    ctx.clause("pixel position = vertex * rescale + offset, x with index 0 and y with index 1, in both code paths")
    g = repo.func(f"{MY}.get_intensity")
    ctx.touch(g)
    sg = sym.summarize(repo, g.qualname)
    image, vertex, lay = (T.sym(p) for p in g.params[:3])
    off, res = opt("offset", 0, 0), opt("rescale", 1, 1)
    xy = T.seq((T.add(T.mul(T.attr(vertex, "x"), T.idx(res, T.num(0))), T.idx(off, T.num(0))),
                T.add(T.mul(T.attr(vertex, "y"), T.idx(res, T.num(1))), T.idx(off, T.num(1)))))
    want = T.call("map", (T.attr(image, "getpixel"), T.call(f"{MY}.get_layer_elements", (xy, lay))))
    rules.decide_equal(ctx, "FORM", f"{g.qualname} / FORM / pixels of the window at (x*rescale[0]+offset[0], y*rescale[1]+offset[1])", ctx.where(g), sg.ret(), want, "window pixels")
    h = repo.func(f"{MY}.get_interpolation")
    ctx.touch(h)
    sh = sym.summarize(repo, h.qualname)
    be, lay2 = T.sym(h.params[0]), T.sym(h.params[1])
    xs = ("map", T.add(T.mul(B0, T.idx(res, T.num(0))), T.idx(off, T.num(0))), B0, T.attr(be, "xs"), T.TRUE)
    ys = ("map", T.add(T.mul(B0, T.idx(res, T.num(1))), T.idx(off, T.num(1))), B0, T.attr(be, "ys"), T.TRUE)
    pairs = T.call("list", (T.call("zip", (xs, ys)),))
    ret = sh.ret()
    if ret[0] != "seq" or len(ret[1]) != 2:
        raise AnalysisError("get_interpolation no longer returns (pixels, length)")
    length = ret[1][1]
    k = ("bv", 1)
    # canonical forms (sym.canon_loop): consecutive points are P[k], P[k+1] for k in range(len(P) - 1), however the loop is spelled
    # (range(1, n) with k-1 / k, zip(P, P[1:])); an array conversion of an existing sequence is the identity on its values
    seg = T.call("numpy.linalg.norm", (T.sub(T.idx(pairs, k), T.idx(pairs, T.add(k, T.num(1)))),))
    steps = T.call("range", (T.sub(T.call("len", (pairs,)), T.num(1)),))
    want_len = ("sum", seg, k, steps, T.TRUE)
    ctx.clause("integrated: band pixels are a set (distinct), length is the polyline length of the transformed points")
    rules.decide_equal(ctx, "FORM", f"{h.qualname} / FORM / length = sum of |P[k-1] - P[k]| over the transformed polyline", ctx.where(h), length, want_len, "polyline length")
    pix = ret[1][0]
    is_set = pix[0] == "union" and pix[1] == T.call("set", ()) and pix[2][0] == "flatmap"
    walk_ok = False
    if is_set:
        arg, L = pix[2][1], pix[2][2]
        ceil = ("mod", "math.ceil")
        cb = ("bv", "c")
        a0 = ("map", T.call("math.ceil", (cb,)), cb, T.idx(pairs, L), T.TRUE)          # list(map(math.ceil, P[k])) == [math.ceil(c) for c in P[k]]
        a1 = ("map", T.call("math.ceil", (cb,)), cb, T.idx(pairs, T.add(L, T.num(1))), T.TRUE)
        a0b, a1b = a0, a1
        rng_ok = T.alpha(pix[2][3]) == T.alpha(steps)
        walk_ok = rng_ok and T.alpha(arg) in (T.alpha(T.call(f"{MY}.walk_two_vertices", (a0, a1, lay2))), T.alpha(T.call(f"{MY}.walk_two_vertices", (a0b, a1b, lay2))))
    ctx.check(is_set and walk_ok, "FORM", f"{h.qualname} / FORM / pixels = set union of walk_two_vertices(ceil(P[k-1]), ceil(P[k]), layers)", ctx.where(h),
              "a set, so every band pixel is counted once", f"band pixels are {T.show(T.alpha(pix))[:200]}")

    # ------------------------------------------------------------------ statistic, normalisation, keys
    q = repo.func(f"{MY}.get_intensities")
    ctx.touch(q)
    P = q.params
    big_edges, img, integ, norm, lay3 = (T.sym(p) for p in P[:5])
    kw = q.node.args.kwarg.arg if q.node.args.kwarg else "kwargs"
    KW = (("**", T.sym("**" + kw)),)
    for mode, flag in (("window", T.FALSE), ("integrated", T.TRUE)):
        sq = sym.summarize(repo, q.qualname, bindings={P[2]: flag, P[3]: ("str", "average")})
        ctx.config(f"integrate={flag[1]}, normalize='average'")
        # the raw intensity per interface, however the dictionary is filled (stores in a loop, or a dict comprehension)
        st = [en for en in rules.entries(sq) if en.loops()]
        for nm in sorted({a.name for a in sq.events if a.kind == "assign"}):
            st += [en for en in rules.entries(sq, name=nm) if en.loops() and en.how != "store"]
        st = [en for en in st if rules.roles(en.loops()[-1]).base == big_edges and not (en.elem[0] == "idx" and en.elem[2] == en.key)]
        if len(st) != 1:
            raise AnalysisError(f"get_intensities[{mode}]: expected one entry per interface in the intensity dictionary, found {len(st)}")
        e = st[0]
        e.value = e.elem
        lp = e.loops()
        b = ("bv", lp[0][1])
        ok_loop = len(lp) == 1 and lp[0][2] == T.call("enumerate", (big_edges,))
        edge = T.idx(b, T.num(1))
        if mode == "window":
            v = ("bv", 2)
            want = T.call("mean", (("map", T.call("median", (T.call(f"{MY}.get_intensity", (img, v, lay3), KW),)), v, T.attr(edge, "vertices"), T.TRUE),))
            ctx.clause("without integration: mean over the interface's vertices of the median of the window")
        else:
            I = T.call(f"{MY}.get_interpolation", (edge, lay3), KW)
            want = T.div(T.call("sum", (T.call("map", (T.attr(img, "getpixel"), T.idx(I, T.num(0)))),)), T.idx(I, T.num(1)))
            ctx.clause("with integration: sum of the distinct band pixels divided by the polyline length")
        rules.decide_equal(ctx, "FORM", f"{q.qualname} / FORM / statistic [{mode}]", ctx.where(q, e.node), e.value, want, f"intensity [{mode}]")
        ctx.clause("intensities are keyed and stored as reference values in the order given (by list position)")
        ctx.check(ok_loop and e.key == T.idx(b, T.num(0)), "KEY", f"{q.qualname} / KEY / intensity written under the interface's list position [{mode}]", ctx.where(q, e.node),
                  "key = enumerate index", f"intensity is written under {T.show(T.alpha(e.key))[:100]}: with repeated or equal interfaces this is not the position it is read back from")
        ret = sq.ret()
        wb = [x for x in sq.stores("gt")]
        okw = False
        for x in wb:
            l2 = x.loops()
            if len(l2) == 1 and l2[0][2] == T.call("enumerate", (big_edges,)):
                b2 = ("bv", l2[0][1])
                okw = x.target == T.attr(T.idx(b2, T.num(1)), "gt") and x.value == T.idx(ret, T.idx(b2, T.num(0)))
        ctx.check(okw, "KEY", f"{q.qualname} / KEY / reference value of interface i read under key i of the returned dictionary [{mode}]", ctx.where(q),
                  "big_edge.gt = result[position]", "the write-back does not read the returned dictionary under the interface's list position")
        # ... and under every normalisation that returns at all (None is the default): no return before the write-back
        sq0 = sym.summarize(repo, q.qualname, bindings={P[2]: flag, P[3]: T.NONE})
        ctx.config(f"integrate={flag[1]}, normalize=None")
        ret0 = sq0.ret()
        okw0 = False
        for x in sq0.stores("gt"):
            l2 = x.loops()
            if len(l2) == 1 and l2[0][2] == T.call("enumerate", (big_edges,)) and not x.conds():
                b2 = ("bv", l2[0][1])
                okw0 = x.target == T.attr(T.idx(b2, T.num(1)), "gt") and x.value == T.idx(ret0, T.idx(b2, T.num(0)))
        ctx.check(okw0, "KEY", f"{q.qualname} / KEY / reference values are written back without normalisation too [{mode}]", ctx.where(q),
                  "normalize=None: big_edge.gt = result[position] for every interface before returning",
                  "with normalize=None the function returns without storing the intensities as the interfaces' reference values (gt keeps its previous content)")
        ctx.clause("'average' normalisation divides every value by the mean of the same dictionary (mean one, degree 0 in the image)")
        okn = False
        if ret[0] == "call" and ret[1] == "dict" and ret[2][0][0] == "map":
            m = ret[2][0]
            elt, bv, it = m[1], m[2], m[3]
            if it[0] == "call" and it[1] == ("m", "items"):
                D = it[2][0]
                mean = T.call("mean", (T.call("list", (T.call(("m", "values"), (D,)),)),))
                mean2 = T.call("mean", (T.call(("m", "values"), (D,)),))
                okn = elt in (T.seq((T.idx(bv, T.num(0)), T.div(T.idx(bv, T.num(1)), mean))), T.seq((T.idx(bv, T.num(0)), T.div(T.idx(bv, T.num(1)), mean2))))
        ctx.check(okn, "LIN", f"{q.qualname} / LIN / value / mean(values of the same dictionary) [{mode}]", ctx.where(q),
                  "{k: v / mean(D.values()) for k, v in D.items()}", f"normalised result is {T.show(T.alpha(ret))[:200]}")


    ctx.clause("the band is a set of distinct PIXELS: every position put into it has integer coordinates")
    wk = repo.func(f"{MY}.walk_two_vertices")
    ctx.touch(wk)
    swk = sym.summarize(repo, wk.qualname)
    gl = [e for e in swk.calls() if e.target == f"{MY}.get_layer_elements" and e.loops()]
    if not gl:
        raise AnalysisError("walk_two_vertices: call of get_layer_elements inside the walk not found - re-bind the anchor")
    INT_CALLS = {"int", "math.floor", "math.ceil", "math.trunc", "numpy.rint", "numpy.floor", "numpy.ceil", "numpy.trunc"}
    for e in gl:
        loopvar = ("bv", e.loops()[-1][1])
        pos = e.args[0]
        leaves = []

        def comps(t):
            if t[0] == "phi":
                comps(t[2]); comps(t[3])
            elif t[0] == "seq":
                leaves.extend(t[1])
            else:
                leaves.append(t)
        comps(pos)

        def integral(t):
            if t == loopvar or (t[0] == "num" and t[1].denominator == 1):
                return True
            if t[0] == "call" and t[1] in INT_CALLS:
                return True
            if t[0] == "call" and t[1] == "round" and len(t[2]) == 1:
                return True
            if t[0] == "phi":
                return integral(t[2]) and integral(t[3])
            return False
        bad = [t for t in leaves if not integral(t)]
        ctx.check(not bad, "KEY", f"{wk.qualname} / KEY / band positions are integer pixel coordinates", ctx.where(wk, e.node),
                  "each coordinate is the integer walk variable or an int()/floor/ceil/round of the interpolated one",
                  f"a band position carries the float coordinate {T.show(T.alpha(bad[0]))[:100] if bad else ''}: different float positions inside one pixel are "
                  f"kept as different set elements and Image.getpixel truncates them to the same pixel, which is then summed more than once")

    ctx.clause("the band follows the polyline: between two end points the minor coordinate is the linear interpolation along the major axis, in either walking direction")
    v0_, v1_ = T.sym(wk.params[0]), T.sym(wk.params[1])
    n_interp = 0
    for e in gl:
        loopvar = ("bv", e.loops()[-1][1])
        for t in T.subterms(e.args[0]):
            if t[0] == "call" and t[1] == "numpy.interp" and len(t[2]) >= 3:
                n_interp += 1
                xp = t[2][1]
                if xp[0] == "seq" and len(xp[1]) == 2 and xp[1][0][0] == "idx" and xp[1][1][0] == "idx" and xp[1][0][1] == v0_ and xp[1][1][1] == v1_:
                    ctx.violation("FORM", f"{wk.qualname} / FORM / interpolation valid in both walking directions", ctx.where(wk, e.node),
                                  f"numpy.interp is given the sample points {T.show(T.alpha(xp))[:90]} in walking order; numpy.interp requires increasing "
                                  "sample points and returns meaningless values otherwise, and the walk runs from v0 to v1 in decreasing direction too "
                                  "(delta = -1): segments stored in descending direction get a band that does not follow the segment")
            if t[0] == "call" and isinstance(t[1], tuple) and t[1][0] == "dyn" and t[1][1][0] == "call" and t[1][1][1] == "scipy.interpolate.interp1d":
                n_interp += 1
                ip = t[1][1]
                xs_, ys_ = (ip[2] + (None, None))[:2]
                kind = dict(ip[3]).get("kind", ("str", "linear"))
                okf = xs_ is not None and ys_ is not None and xs_[0] == "seq" and ys_[0] == "seq" and len(xs_[1]) == 2 and len(ys_[1]) == 2 \
                    and [u[1] for u in xs_[1]] == [v0_, v1_] and [u[1] for u in ys_[1]] == [v0_, v1_] and xs_[1][0][2] == xs_[1][1][2] and ys_[1][0][2] == ys_[1][1][2] \
                    and xs_[1][0][2] != ys_[1][0][2] and kind == ("str", "linear") and t[2] == (loopvar,)
                ctx.check(okf, "FORM", f"{wk.qualname} / FORM / minor coordinate = linear interpolation between the two end points at the walk variable", ctx.where(wk, e.node),
                          "interp1d([v0[axis], v1[axis]], [v0[axis-1], v1[axis-1]], kind='linear')(value)",
                          f"the minor coordinate is {T.show(T.alpha(t))[:200]}")
    ctx.count("FORM", "interpolation sites in the walk", n_interp, 1)

    ctx.clause("read_myosin hands the chosen interface list and every option to get_intensities in the right slots")
    rm = repo.func(f"{MY}.read_myosin")
    ctx.touch(rm)
    srm = sym.summarize(repo, rm.qualname)
    calls = [e for e in srm.calls() if e.target == q.qualname]
    okf = False
    if len(calls) == 1 and len(rm.params) >= 5:
        e = calls[0]
        frame, tiff, integ_, norm_, lay_ = (T.sym(p) for p in rm.params[:5])
        use_all = ("opt", "use_all", T.FALSE)
        edges = T.phi(use_all, T.attr(frame, "big_edges_list"), T.attr(frame, "internal_big_edges"))
        img = T.call("PIL.Image.open", (tiff,))
        bound = dict(zip(P, e.args))
        bound.update({k: v for k, v in e.kw if k != "**"})
        okf = bound.get(P[0]) == edges and bound.get(P[1]) == img and bound.get(P[2]) == integ_ and bound.get(P[3]) == norm_ and bound.get(P[4]) == lay_ \
            and any(k == "**" for k, _ in e.kw)
    ctx.check(okf, "ALIGN", f"{rm.qualname} / ALIGN / (interfaces, image, integrate, normalize, layers, **kwargs) forwarded slot by slot", ctx.where(rm),
              "internal interfaces unless use_all; options in their own slots", "read_myosin does not forward its interface list / options to the matching parameters of get_intensities")


_P = "forsys/myosin.py"
PINNED = [
    ("walk interpolates with np.interp on end points in walking order", "forsys/myosin.py", "        other = int(interpolation(value))", "        other = int(np.interp(value, [v0[axis], v1[axis]], [v0[axis - 1], v1[axis - 1]]))"),
    ("walk interpolates the major coordinate against itself", "forsys/myosin.py", "                                                [v0[axis - 1], v1[axis - 1]],", "                                                [v0[axis], v1[axis]],"),
    ("F17 reintroduced: float band positions", _P, "        other = int(interpolation(value))\n", "        other = interpolation(value)\n"),
    ("read_myosin swaps integrate and normalize", _P, "                           image,\n                           integrate,\n                           normalize,\n                           layers,", "                           image,\n                           normalize,\n                           integrate,\n                           layers,"),
    ("read_myosin defaults to all interfaces", _P, '    if kwargs.get("use_all", False):', '    if kwargs.get("use_all", True):'),
    ("F10 reintroduced: key by list.index", _P, "        key_to_use = be_id\n", "        key_to_use = big_edges.index(big_edge)\n"),
    ("window misses the last row/column", _P, "layer_range = np.arange(-layers, layers + 1)", "layer_range = np.arange(-layers, layers)"),
    ("window offsets both added to x", _P, "xy_pixel = (position[0] + ii, position[1] + kk)", "xy_pixel = (position[0] + ii, position[0] + kk)"),
    ("y rescaled with the x factor", _P, "x_y_position = [(vertex.x * rescale[0]) + offset[0], (vertex.y * rescale[1]) + offset[1]]", "x_y_position = [(vertex.x * rescale[0]) + offset[0], (vertex.y * rescale[0]) + offset[1]]"),
    ("offset applied before rescaling", _P, "x_y_position = [(vertex.x * rescale[0]) + offset[0], (vertex.y * rescale[1]) + offset[1]]", "x_y_position = [(vertex.x + offset[0]) * rescale[0], (vertex.y + offset[1]) * rescale[1]]"),
    ("integration path uses offset[0] for y", _P, "ys_values = [(value * rescale[1]) + offset[1] for value in big_edge.ys]", "ys_values = [(value * rescale[1]) + offset[0] for value in big_edge.ys]"),
    ("median of the per-vertex means", _P, "            intensity_to_use = np.mean(list(map(np.median,\n                                                intensities_per_edge)))", "            intensity_to_use = np.median(list(map(np.mean,\n                                                intensities_per_edge)))"),
    ("integrated value not divided by the length", _P, "            intensity_to_use = sum(map(image_to_use.getpixel,\n                                       vertices)) / length", "            intensity_to_use = sum(map(image_to_use.getpixel,\n                                       vertices))"),
    ("band pixels kept as a list (duplicates counted)", _P, "    all_vertices = set()\n", "    all_vertices = []\n"),
    ("length of the untransformed polyline", _P, "length += np.linalg.norm(np.array(xy_pairs[ii - 1]) - np.array(xy_pairs[ii]))", "length += np.linalg.norm(np.array([big_edge.xs[ii - 1], big_edge.ys[ii - 1]]) - np.array([big_edge.xs[ii], big_edge.ys[ii]]))"),
    ("normalised by the maximum", _P, "mean_value = np.mean(list(intensities_only_internal.values()))", "mean_value = np.max(list(intensities_only_internal.values()))"),
    ("write-back shifted by one", _P, "        big_edge.gt = intensities_only_internal[be_id]", "        big_edge.gt = intensities_only_internal[max(be_id - 1, 0)]"),
    ("squared pixel values", _P, "    return list(map(image.getpixel, pixel_positions))", "    return [image.getpixel(p) ** 2 for p in pixel_positions]"),
]
PRESERVING = [
    ("interp1d with its default kind", "forsys/myosin.py", "                                                [v0[axis - 1], v1[axis - 1]],\n                                                kind=\"linear\")", "                                                [v0[axis - 1], v1[axis - 1]])"),
    ("get_layer_elements inlined at its call site in get_intensity", "forsys/myosin.py", "    pixel_positions = get_layer_elements(x_y_position, layers)\n",
     "    layer_range = np.arange(-layers, layers + 1)\n    pixel_positions = [(x_y_position[0] + ii, x_y_position[1] + kk) for (ii, kk) in itertools.product(layer_range, layer_range)]\n"),
    ("window range spelled with range()", _P, "xy_pixel = (position[0] + ii, position[1] + kk)", "xy_pixel = (ii + position[0], kk + position[1])"),
    ("position in two statements", _P, "x_y_position = [(vertex.x * rescale[0]) + offset[0], (vertex.y * rescale[1]) + offset[1]]", "px = offset[0] + rescale[0] * vertex.x\n    py = offset[1] + rescale[1] * vertex.y\n    x_y_position = [px, py]"),
]

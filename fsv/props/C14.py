"""C14 - Surface Evolver dumps are parsed faithfully (DESIGN.md section 3, C14)."""
import ast

from .. import terms as T
from .. import sym, rules
from ..model import AnalysisError, Func

EXPLANATION = ("Field table of the parser as formula obligations (which token, which conversion, how many rounding digits, default), "
               "column-name / token agreement between the writer (get_vertices / get_edges / get_pressures) and the reader "
               "(create_lattice), ARITY: every token access beyond the mandatory three of a vertex / edge record is dominated by a "
               "length guard evaluated first, signed edge reference -> tail vertex through abs(), orphan removal, section markers, "
               "interface reference tension = mean over its mesh edges.")

SE = "forsys.surface_evolver.SurfaceEvolver"
SELF = T.sym("self")


def line_tokens(t):
    """-> index k when t == <line>.split()[k] (any line expression)"""
    if t[0] == "idx" and t[1][0] == "call" and t[1][1] == ("m", "split") and len(t[1][2]) == 1 and t[2][0] == "num":
        return int(t[2][1]), t[1][2][0]
    return None


def run(ctx):
    repo = ctx.repo
    rules.borrow(ctx, "C09", funcs=["forsys.surface_evolver.SurfaceEvolver.create_lattice"], minimum=5, because="cell-less vertices are removed together with all their mesh edges")
    rules.borrow(ctx, "C10", key_parts=["forsys.surface_evolver.SurfaceEvolver / STATE /"], minimum=0, because="each parser object reads its own file: no section index shared through the class")

    # ================================================================== writers: token -> column
    def columns(fname):
        f = repo.func(f"{SE}.{fname}")
        ctx.touch(f)
        s = sym.summarize(repo, f.qualname)
        cols = {}
        for e in s.stores():
            if e.sub and e.key[0] == "str":
                cols[e.key[1]] = (e.value, e)
        return f, s, cols

    ctx.clause("one vertex per vertex record at its coordinates rounded to three decimals")
    f, s, cols = columns("get_vertices")
    for col, tok in (("x", 1), ("y", 2)):
        ok = False
        got = "?"
        if col in cols:
            v = cols[col][0]
            got = T.show(T.alpha(v))[:160]
            if v[0] == "map" and v[4] == T.TRUE:
                elt = v[1]
                if elt[0] == "call" and elt[1] == "round" and len(elt[2]) == 2 and elt[2][1] == T.num(3):
                    inner = elt[2][0]
                    if inner[0] == "call" and inner[1] == "float":
                        lt = line_tokens(inner[2][0])
                        ok = lt is not None and lt[0] == tok
        ctx.check(ok, "CONST", f"{f.qualname} / CONST / column '{col}' = round(float(token {tok}), 3)", ctx.where(f),
                  f"token {tok}, float, 3 digits", f"column '{col}' is {got}")
    okid = "id" in cols and cols["id"][0][0] == "map" and any(x[0] == "call" and x[1] == "re.search" for x in T.subterms(cols["id"][0]))
    ctx.check(okid, "CONST", f"{f.qualname} / CONST / column 'id' = first integer of the record", ctx.where(f), "int(re.search(r'\\d+', line).group())",
              "the vertex id is no longer the first integer of the record")

    ctx.clause("one mesh edge per edge record joining the recorded vertices with the recorded density (1 if absent)")
    f, s, cols = columns("get_edges")
    for col, tok in (("id1", 1), ("id2", 2)):
        ok = False
        got = "?"
        if col in cols:
            v = cols[col][0]
            got = T.show(T.alpha(v))[:160]
            if v[0] == "map" and v[1][0] == "call" and v[1][1] == "int":
                lt = line_tokens(v[1][2][0])
                ok = lt is not None and lt[0] == tok
        ctx.check(ok, "CONST", f"{f.qualname} / CONST / column '{col}' = int(token {tok})", ctx.where(f), f"token {tok}", f"column '{col}' is {got}")
    ok = False
    got = "?"
    if "force" in cols:
        v = cols["force"][0]
        got = T.show(T.alpha(v))[:260]
        if v[0] == "map" and v[1][0] == "phi":
            c, a, b = v[1][1], v[1][2], v[1][3]
            dens = [x for x in T.conjuncts(c) if x[0] == "cmp" and x[1] == "eq" and ("str", "density") in (x[2], x[3])]
            if dens and b == T.num(1) and a[0] == "call" and a[1] == "float":
                lt_val = line_tokens(a[2][0])
                other = dens[0][2] if dens[0][3] == ("str", "density") else dens[0][3]
                lt_key = line_tokens(other)
                ok = lt_val is not None and lt_key is not None and lt_val[0] == 4 and lt_key[0] == 3
    ctx.check(ok, "CONST", f"{f.qualname} / CONST / density = float(token 4) when token 3 is 'density', else 1", ctx.where(f),
              "token 3 keyword, token 4 value, default 1", f"column 'force' is {got}")

    # ---------------- ARITY at the AST level (evaluation order matters)
    ctx.clause("token accesses stay inside the record: accesses beyond the mandatory tokens are guarded by a length test evaluated first")
    n_guarded = 0
    units = []
    for fname, arity in (("get_vertices", 3), ("get_edges", 3)):
        units.append((repo.func(f"{SE}.{fname}"), arity, set()))
    seen_units = set()
    while units:
        fq, arity, inherited = units.pop(0)
        if (fq.qualname, tuple(sorted(inherited))) in seen_units:
            continue
        seen_units.add((fq.qualname, tuple(sorted(inherited))))
        ctx.touch(fq)
        parents = {}
        for n in ast.walk(fq.node):
            for c in ast.iter_child_nodes(n):
                parents[c] = n
        token_names = set(inherited)
        for n in ast.walk(fq.node):
            if isinstance(n, ast.Assign) and isinstance(n.value, ast.Call) and isinstance(n.value.func, ast.Attribute) and n.value.func.attr == "split":
                for t in n.targets:
                    if isinstance(t, ast.Name):
                        token_names.add(t.id)
        # a private helper that is handed the token list is part of the record's reader: its parameter is the token list
        for c in repo.calls_in(fq):
            for tgt in repo.resolve_call(c, fq):
                if isinstance(tgt, Func) and sym.auto_inline(tgt):
                    ps = tgt.params[1:] if (tgt.cls is not None and not tgt.is_static) else tgt.params
                    got = {ps[i] for i, a in enumerate(c.args) if i < len(ps) and ((isinstance(a, ast.Call) and isinstance(a.func, ast.Attribute) and a.func.attr == "split")
                                                                                  or (isinstance(a, ast.Name) and a.id in token_names))}
                    got |= {k.arg for k in c.keywords if k.arg in ps and isinstance(k.value, ast.Name) and k.value.id in token_names}
                    if got:
                        units.append((tgt, arity, got))

        def is_tokens(x):
            return (isinstance(x, ast.Call) and isinstance(x.func, ast.Attribute) and x.func.attr == "split") or \
                (isinstance(x, ast.Name) and x.id in token_names)

        def len_guard(test, k):
            """test guarantees len(tokens) > k"""
            def is_len(x):
                return isinstance(x, ast.Call) and isinstance(x.func, ast.Name) and x.func.id == "len" and x.args and is_tokens(x.args[0])
            for c in ast.walk(test):
                if isinstance(c, ast.Compare) and len(c.ops) == 1:
                    l, r, op = c.left, c.comparators[0], c.ops[0]
                    if is_len(l):
                        v = rules.const_value(r)
                        if v is not None and ((isinstance(op, ast.Gt) and v >= k) or (isinstance(op, ast.GtE) and v >= k + 1)):
                            return True
                    elif is_len(r):           # the same test with the operands the other way round
                        v = rules.const_value(l)
                        if v is not None and ((isinstance(op, ast.Lt) and v >= k) or (isinstance(op, ast.LtE) and v >= k + 1)):
                            return True
            return False
        for n in ast.walk(fq.node):
            if isinstance(n, ast.Subscript) and is_tokens(n.value):
                k = rules.const_value(n.slice)
                if k is None or k < arity:
                    continue
                guarded = False
                child, p = n, parents.get(n)
                while p is not None and not guarded:
                    if isinstance(p, ast.BoolOp) and isinstance(p.op, ast.And):
                        idx = next(i for i, v in enumerate(p.values) if v is child or any(x is child for x in ast.walk(v)))
                        guarded = any(len_guard(v, k) for v in p.values[:idx])
                    elif isinstance(p, ast.IfExp) and (child is p.body or any(x is child for x in ast.walk(p.body))) and child is not p.test:
                        guarded = guarded or _test_guards(p.test, k, len_guard)
                    elif isinstance(p, ast.If) and child in p.body:
                        guarded = guarded or _test_guards(p.test, k, len_guard)
                    elif isinstance(p, ast.Try) and child in p.body:
                        guarded = guarded or any(h.type is None or "IndexError" in ast.unparse(h.type) or "Exception" in ast.unparse(h.type) for h in p.handlers)
                    child, p = p, parents.get(p)
                n_guarded += 1
                ctx.check(guarded, "ARITY", f"{fq.qualname} / ARITY / token {k} read only after a length guard", ctx.where(fq, n),
                          f"`{ast.unparse(n)}` is dominated by len(tokens) > {k}",
                          f"`{ast.unparse(n)}` reads token {k} of a record whose mandatory arity is {arity} without a length guard evaluated first: "
                          f"a record without attributes raises IndexError instead of taking the default")
    ctx.count("ARITY", "token accesses beyond the mandatory arity", n_guarded, 2)

    ctx.clause("body multiplier (token 7) is the reference pressure, keyed by the body id")
    fp = repo.func(f"{SE}.get_pressures")
    ctx.touch(fp)
    sp = sym.summarize(repo, fp.qualname)
    st = [e for e in sp.stores() if e.sub and e.loops()]
    ok = False
    for e in st:
        if e.key[0] == "call" and e.key[1] == "int" and e.value[0] == "call" and e.value[1] == "float":
            a, b = line_tokens(e.key[2][0]), line_tokens(e.value[2][0])
            ok = a is not None and b is not None and a[0] == 0 and b[0] == 7 and a[1] == b[1]
    ctx.check(ok, "CONST", f"{fp.qualname} / CONST / pressures[int(token 0)] = float(token 7) of the same line", ctx.where(fp), "token 0 -> token 7",
              "the body record is no longer read as id = token 0, multiplier = token 7")

    fl = repo.func(f"{SE}.calculate_first_last")
    ctx.touch(fl)
    # ================================================================== reader: create_lattice
    cl = repo.func(f"{SE}.create_lattice")
    ctx.touch(cl)
    sc = sym.summarize(repo, cl.qualname)
    ctx.clause("objects are built from the columns the parser wrote (id/x/y, id/id1/id2/force, id/edges/pressures)")
    all_entries = rules.entries(sc)
    for nm in sorted({a.name for a in sc.events if a.kind == "assign"}):
        all_entries += rules.entries(sc, name=nm)
    vs = [e for e in all_entries if e.elem[0] == "call" and e.elem[1] == "new:forsys.vertex.Vertex"]
    ok = False
    for e in vs:
        lp = e.loops()
        if lp and lp[-1][2] == T.call(("m", "iterrows"), (T.call(f"{SE}.get_vertices", (SELF,)),)):
            r = T.idx(("bv", lp[-1][1]), T.num(1))
            ok = e.elem[2] == (T.call("int", (T.attr(r, "id"),)), T.attr(r, "x"), T.attr(r, "y")) and e.key == T.call("int", (T.attr(r, "id"),))
    ctx.check(ok, "ALIGN", f"{cl.qualname} / ALIGN / Vertex(int(r.id), r.x, r.y) per row of get_vertices()", ctx.where(cl), "columns id, x, y",
              "vertices are not built as Vertex(int(r.id), r.x, r.y) from get_vertices()")
    es = [e for e in sc.stores() if e.sub and e.value[0] == "call" and e.value[1] == "new:forsys.edge.SmallEdge"]
    ok = False
    for e in es:
        lp = e.loops()
        if lp and lp[-1][2] == T.call(("m", "iterrows"), (T.call(f"{SE}.get_edges", (SELF,)),)):
            r = T.idx(("bv", lp[-1][1]), T.num(1))
            a = e.value[2]
            ok = len(a) == 3 and a[0] == T.call("int", (T.attr(r, "id"),)) and a[1][0] == "idx" and a[1][2] == T.call("int", (T.attr(r, "id1"),)) \
                and a[2][0] == "idx" and a[2][2] == T.call("int", (T.attr(r, "id2"),)) and a[1][1] == a[2][1]
    ctx.check(ok, "ALIGN", f"{cl.qualname} / ALIGN / SmallEdge(int(r.id), vertices[int(r.id1)], vertices[int(r.id2)])", ctx.where(cl), "columns id, id1, id2",
              "mesh edges do not join vertices[id1] and vertices[id2] of their own record")
    gts = [e for e in sc.stores("gt")]
    ok = False
    how = "?"
    X = None
    for e in gts:
        v = e.value
        lp = e.loops()
        if not (v[0] == "call" and v[1] == "round" and len(v[2]) == 2 and v[2][1] == T.num(4) and lp):
            continue
        r = T.idx(("bv", lp[-1][1]), T.num(1))
        X = v[2][0]
        how = T.show(T.alpha(X))[:160]
        E = T.call(f"{SE}.get_edges", (SELF,))
        rid = T.call("int", (T.attr(r, "id"),))
        by_id = [T.idx(T.attr(T.idx(T.idx(T.attr(E, "loc"), c), ("str", "force")), "iloc"), T.num(0))
                 for c in (T.cmp("Eq", T.idx(E, ("str", "id")), rid), T.cmp("Eq", T.attr(E, "id"), rid), T.cmp("Eq", T.idx(E, ("str", "id")), T.attr(r, "id")))]
        own = [T.attr(r, "force"), T.idx(r, ("str", "force"))]
        ok = X in by_id or X in own
    ctx.check(ok, "CONST", f"{cl.qualname} / CONST / reference tension = round(density of the edge's own record, 4)", ctx.where(cl),
              "4 digits; the density is the one of the row with the same id (or of the row itself)",
              f"the reference tension is round({how}, 4): not the density recorded for this edge's own id (ids need not be 1..n)",
              value=X)

    ctx.clause("parsing a dump does not depend on what was parsed before (no module-level or class-level cache)")
    shared = rules.module_level_mutated(repo, "forsys.surface_evolver")
    for name, fq, st_ in shared:
        ctx.violation("STATE", f"{fq.qualname} / STATE / module-level container `{name}` mutated", ctx.where(fq, st_["node"]),
                      f"`{fq.module.line(st_['node'].lineno)}` writes into a module-level container: what one parse stored (keyed by a path that can be rewritten) is reused by the next")
    if not shared:
        ctx.ok("STATE", "forsys.surface_evolver / STATE / no module-level mutable state", "forsys/surface_evolver.py", "0 module-level containers mutated")
    idx_attrs = {"index_v", "index_e", "index_f", "index_pressures"}
    wr = [(fq, st_) for a_ in idx_attrs for fq, st_ in repo.writers_of(a_)]
    okw = bool(wr) and all((fq.qualname == f"{SE}.calculate_first_last" or rules.private_only_from(repo, fq, {f"{SE}.calculate_first_last": 1}))
                           and isinstance(st_["recv"], ast.Name) and st_["recv"].id == "self" for fq, st_ in wr)
    ctx.check(okw, "WHO", f"{SE} / WHO / section boundaries are per-instance attributes written by calculate_first_last only", ctx.where(fl),
              "self.index_* set once per object", "the section boundaries are no longer per-object attributes written only by calculate_first_last")
    cs = [e for e in sc.stores() if e.sub and e.value[0] == "call" and e.value[1] == "new:forsys.cell.Cell"]
    ctx.clause("a cell's vertex cycle follows the face's signed edge loop (tail vertex of each signed edge)")
    ok = okp = False
    for e in cs:
        lp = e.loops()
        if lp and lp[-1][2] == T.call(("m", "iterrows"), (T.call(f"{SE}.get_cells", (SELF,)),)):
            r = T.idx(("bv", lp[-1][1]), T.num(1))
            a = e.value[2]
            kw = dict(e.value[3])
            if len(a) >= 2 and a[1][0] == "map" and a[1][3] == T.attr(r, "edges") and a[1][4] == T.TRUE:
                elt, b = a[1][1], a[1][2]
                if elt[0] == "phi":
                    c, pos, neg = elt[1], elt[2], elt[3]
                    if c == T.cmp("Lt", b, T.ZERO):      # canonical orientation may be flipped
                        c, pos, neg = T.b_not(c), neg, pos

                    def end(t, which):
                        return t[0] == "attr" and t[2] == which and t[1][0] == "idx" and t[1][2] == T.call("abs", (b,))
                    ok = c == T.cmp("Gt", b, T.ZERO) and end(pos, "v1") and end(neg, "v2") and pos[1][1] == neg[1][1]
            gp = kw.get("gt_pressure")
            okp = gp is not None and gp[0] == "call" and gp[1] == "round" and gp[2][1] == T.num(4) and gp[2][0] == T.idx(r, ("str", "pressures"))
    ctx.check(ok, "SIB", f"{cl.qualname} / SIB / positive reference -> edge.v1, negative -> edge.v2, through abs(e)", ctx.where(cl),
              "[edges[abs(e)].v1 if e > 0 else edges[abs(e)].v2 for e in r.edges]", "the cell cycle is not the tail vertex of each signed edge reference")
    ctx.check(okp, "CONST", f"{cl.qualname} / CONST / reference pressure = round(multiplier, 4)", ctx.where(cl), "round(r['pressures'], 4)",
              "the reference pressure is not the body multiplier rounded to four decimals")

    ctx.clause("a face's edge loop excludes the face id (first line only) and the trailing continuation / comment tokens, on every line layout")
    gc = repo.func(f"{SE}.get_cells")
    ctx.touch(gc)
    sgc = sym.summarize(repo, gc.qualname)
    idapp = [e for e in sgc.events if e.kind == "call" and isinstance(e.fname, tuple) and e.fname[1] == "append" and e.args
             and e.args[0][0] == "idx" and e.args[0][2] == T.num(0) and e.args[0][1][0] == "call" and e.args[0][1][1] == ("m", "split")]
    n_sl = 0
    for e in sgc.events:
        if e.kind != "assign" or not e.loops():
            continue
        sl = [x for x in T.subterms(e.value) if x[0] == "idx" and x[2][0] == "slice" and x[1][0] == "call" and x[1][1] == ("m", "split")]
        if len(sl) != 1 or not any(x[0] == "lc" for x in T.subterms(e.value)):
            continue
        n_sl += 1
        tokens = sl[0][1]
        lo, hi = sl[0][2][1], sl[0][2][2]
        first_line = any(set(a.conds()) == set(e.conds()) and a.args[0][1] == tokens for a in idapp)
        closes = ("in", ("str", "*/"), T.idx(tokens, T.num(-1))) in e.conds()
        want_lo = T.num(1) if first_line else T.num(0)
        want_hi = T.num(-2) if closes else T.num(-1)
        ok = (lo == want_lo or (not first_line and lo == T.NONE)) and hi == want_hi
        ctx.check(ok, "FORM", f"{gc.qualname} / FORM / edge tokens = line[{T.show(want_lo)}:{T.show(want_hi)}] on a "
                  f"{'first' if first_line else 'continuation'} line that {'closes' if closes else 'continues'} the face", ctx.where(gc, e.node),
                  "face id consumed on the first line only; one trailing token for a continuation mark, two for the closing comment",
                  f"`{gc.module.line(e.node.lineno)}` takes tokens [{T.show(lo)}:{T.show(hi)}] on a {'first' if first_line else 'continuation'} line that "
                  f"{'closes' if closes else 'continues'} the face; expected [{T.show(want_lo)}:{T.show(want_hi)}] (the face id is not an edge reference)")
    ctx.count("FORM", "face-line slices in get_cells", n_sl, 4)
    # a saved face leaves nothing behind: wherever a face's edge loop is appended to the result, the accumulator is emptied and the
    # "next line starts a face" flag is raised again, under the same conditions (a one-line face included)
    saves = [e for e in sgc.events if e.kind == "call" and isinstance(e.fname, tuple) and e.fname[1] == "append" and e.loops() and e.args
             and e.args[0][0] == "map" and e.args[0][1][0] == "call" and e.args[0][1][1] == "int"]
    if not saves:
        raise AnalysisError("get_cells: the append of a finished face's edge loop not found - re-bind the anchor")
    for sv_ in saves:
        C = set(sv_.conds())
        later = [e for e in sgc.events if e.kind == "assign" and e.loops() and sgc.pos(e) > sgc.pos(sv_)]
        emptied = [e for e in later if e.value == T.seq(()) and set(e.conds()) == C]
        raised = [e for e in later if e.value == T.TRUE and set(e.conds()) == C]
        part = [e for e in later if (e.value == T.seq(()) or e.value == T.TRUE) and set(e.conds()) > C]
        ctx.check(bool(emptied) and bool(raised), "STATE", f"{gc.qualname} / STATE / accumulator emptied and first-line flag raised after every saved face", ctx.where(gc, sv_.node),
                  "current_edge = []; first = True under the conditions of the save itself",
                  "after a face is saved the token accumulator / first-line flag are " +
                  (f"reset only under the additional condition {[T.show(c)[:50] for c in set(part[0].conds()) - C]}" if part else "not reset") +
                  ": the next face starts with the previous face's edges still in the accumulator")

    ctx.clause("vertices and edges that belong to no face are dropped")
    ap = [e for e in rules.additions(sc) if e.loops()]
    ok = False
    for e in ap:
        ro = rules.roles(e.loops()[-1])
        if ro.kind == "items" and e.conds() == [T.b_not(T.ige(T.call("len", (T.attr(ro.val, "ownCells"),)), 1))] and e.args[0] in (T.call("int", (ro.key,)), ro.key):
            ok = True
    dv = [e for e in sc.events if e.kind == "del"]
    ctx.check(ok and len(dv) >= 2, "PAIR", f"{cl.qualname} / PAIR / vertices without cells are collected and deleted together with their edges", ctx.where(cl),
              "len(v.ownCells) == 0 -> delete incident edges, delete vertex", "orphan vertices (no cell) are no longer removed")

    ctx.clause("section boundaries come from the five literal markers")
    # read from the evaluated function (private helpers expanded), in program order: each section is located by a scan for its
    # own marker followed by a scan for the next section's marker, with a rewind before every pair but the first
    sfl = sym.summarize(repo, fl.qualname)
    seq_m = []
    for e in sfl.events:
        if e.kind == "call" and e.fname == ("m", "startswith") and e.args and e.args[0][0] == "str":
            seq_m.append(e.args[0][1])
        elif e.kind == "call" and e.fname == ("m", "seek"):
            seq_m.append("<rewind>")
    lits = sorted(set(seq_m) - {"<rewind>"})
    ctx.check(lits == sorted(["vertices  ", "edges  ", "faces  ", "bodies  ", "read"]), "CONST", f"{fl.qualname} / CONST / section markers", ctx.where(fl),
              f"{lits}", f"section markers are {lits}")
    # a rewind before the first scan (fresh file) and repeated rewinds are no-ops
    while seq_m and seq_m[0] == "<rewind>":
        seq_m = seq_m[1:]
    seq_m = [x for i, x in enumerate(seq_m) if not (x == "<rewind>" and i > 0 and seq_m[i - 1] == "<rewind>")]
    want = ["vertices  ", "edges  ", "<rewind>", "edges  ", "faces  ", "<rewind>", "faces  ", "bodies  ", "<rewind>", "bodies  ", "read"]
    ctx.check(seq_m == want, "PAIR", f"{fl.qualname} / PAIR / each section is delimited by its own marker and the next one, rewinding in between", ctx.where(fl),
              " -> ".join(want), f"scans run as {seq_m}")

    # ================================================================== frame: interface reference = mean of its mesh edges
    ctx.clause("a frame built with gt=True reports as each interface's reference tension the mean density of its mesh edges")
    fr = repo.func("forsys.frames.Frame.__post_init__")
    ctx.touch(fr)
    sf = sym.summarize(repo, fr.qualname)
    g = [e for e in sf.stores("gt")]
    ok = False
    for e in g:
        lp = e.loops()
        be_now = sf.heap.get(T.attr(SELF, "big_edges"), T.attr(SELF, "big_edges"))
        ro = rules.roles(lp[0]) if len(lp) == 1 else None
        if ro is not None and ro.kind in ("items", "values") and ro.base in (T.attr(SELF, "big_edges"), be_now) and e.conds() == [T.attr(SELF, "gt")]:
            k = ("bv", 0)
            want = T.call("mean", (("map", T.attr(T.idx(T.attr(SELF, "edges"), k), "gt"), k, T.attr(ro.val, "edges"), T.TRUE),))
            ok = e.target == T.attr(ro.val, "gt") and T.alpha(e.value) == T.alpha(want)
    ctx.check(ok, "FORM", f"{fr.qualname} / FORM / big_edge.gt = mean(edges[eid].gt for eid in big_edge.edges) when gt", ctx.where(fr),
              "mean over the interface's own mesh edges", "with gt=True the interface reference is not the mean of its own mesh edges' densities")


def _test_guards(test, k, len_guard):
    """every way of reaching the guarded branch passes a conjunct that guarantees the length"""
    if isinstance(test, ast.BoolOp) and isinstance(test.op, ast.And):
        return any(len_guard(v, k) for v in test.values)
    return len_guard(test, k)


_P, _F = "forsys/surface_evolver.py", "forsys/frames.py"
PINNED = [
    ("face accumulator reset only for multi-line faces", "forsys/surface_evolver.py", "                    current_edge = []\n                    first = True", "                    if not first:\n                        current_edge = []\n                        first = True"),
    ("density looked up by position (id - 1)", _P, "round(edges_temp.loc[edges_temp['id'] == int(r.id)]['force'].iloc[0], 4)", "round(edges_temp['force'].get(int(r.id) - 1, 1), 4)"),
    ("section ranges cached in a module-level dict", _P, "@dataclass\nclass SurfaceEvolver:", "_section_index = {}\n\n\n@dataclass\nclass SurfaceEvolver:\n    def _remember(self):\n        _section_index[self.fname] = True\n"),
    ("single-line face reads its own id as an edge", _P, "                        current_edge = current_edge+splitted[1:-2]", "                        current_edge = current_edge+splitted[0:-2]"),
    ("continuation line drops its first edge", _P, "                    current_edge = current_edge+splitted[0:-1]", "                    current_edge = current_edge+splitted[1:-1]"),
    ("closing comment only partly stripped", _P, "                        current_edge = current_edge+splitted[0:-2]", "                        current_edge = current_edge+splitted[0:-1]"),
    ("F9 reintroduced: density token read without a length guard", _P, "                tokens = lines[i].split()\n                forces.append(float(tokens[4]) if len(tokens) > 4 and tokens[3] == \"density\" else 1)",
     "                forces.append(float(lines[i].split()[4]) if lines[i].split()[3] == \"density\" else 1)"),
    ("length guard evaluated after the access", _P, "float(tokens[4]) if len(tokens) > 4 and tokens[3] == \"density\" else 1", "float(tokens[4]) if tokens[3] == \"density\" and len(tokens) > 4 else 1"),
    ("coordinates rounded to two decimals", _P, "xs.append(round(float(lines[i].split()[1]), 3))", "xs.append(round(float(lines[i].split()[1]), 2))"),
    ("y read from token 1", _P, "ys.append(round(float(lines[i].split()[2]), 3))", "ys.append(round(float(lines[i].split()[1]), 3))"),
    ("edge joins token 2 twice", _P, "id1.append(int(lines[i].split()[1]))", "id1.append(int(lines[i].split()[2]))"),
    ("missing density defaults to 0", _P, "and tokens[3] == \"density\" else 1)", "and tokens[3] == \"density\" else 0)"),
    ("density rounded to two decimals", _P, "['force'].iloc[0], 4)", "['force'].iloc[0], 2)"),
    ("negative edge reference takes v1 too", _P, "vlist = [edges[abs(e)].v1 if e > 0 else edges[abs(e)].v2 for e in r.edges]", "vlist = [edges[abs(e)].v1 if e > 0 else edges[abs(e)].v1 for e in r.edges]"),
    ("sign test inverted", _P, "vlist = [edges[abs(e)].v1 if e > 0 else edges[abs(e)].v2 for e in r.edges]", "vlist = [edges[abs(e)].v1 if e < 0 else edges[abs(e)].v2 for e in r.edges]"),
    ("pressure from token 6", _P, "pressures[int(splitted[0])] = float(splitted[7])", "pressures[int(splitted[0])] = float(splitted[6])"),
    ("pressure not rounded to 4", _P, 'gt_pressure = round(r["pressures"], 4)', 'gt_pressure = round(r["pressures"], 1)'),
    ("vertex x and y swapped at construction", _P, "vertices[int(r.id)] = vertex.Vertex(int(r.id), r.x, r.y)", "vertices[int(r.id)] = vertex.Vertex(int(r.id), r.y, r.x)"),
    ("orphans kept", _P, "            if len(v.ownCells) == 0:\n                vertex_to_delete.append(int(vid))", "            if len(v.ownCells) == 0 and False:\n                vertex_to_delete.append(int(vid))"),
    ("faces marker changed", _P, 'line.startswith("faces  ")) + ini_e', 'line.startswith("faces ")) + ini_e'),
    ("interface reference = max of mesh edges", _F, "                big_edge.gt = np.mean(objects)", "                big_edge.gt = np.max(objects)"),
]
PRESERVING = [
    ("density taken from the row itself", _P, "round(edges_temp.loc[edges_temp['id'] == int(r.id)]['force'].iloc[0], 4)", "round(r.force, 4)"),
    ("tokens split once for the vertex record", _P, "                xs.append(round(float(lines[i].split()[1]), 3))\n                ys.append(round(float(lines[i].split()[2]), 3))",
     "                parts = lines[i].split()\n                xs.append(round(float(parts[1]), 3))\n                ys.append(round(float(parts[2]), 3))"),
    ("length guard spelled >= 5", _P, "if len(tokens) > 4 and tokens[3] == \"density\" else 1", "if len(tokens) >= 5 and tokens[3] == \"density\" else 1"),
]

import importlib
from ..model import AnalysisError

CLAIMED = ["C02", "C04", "C05", "C06", "C08", "C09", "C10", "C11", "C12", "C13", "C14",
           "C16", "C17", "C18", "C19", "C20"]


def load(prop):
    if prop not in CLAIMED:
        raise SystemExit(f"property {prop} is not claimed (see MANIFEST.json not_applicable)")
    return importlib.import_module(f"fsv.props.{prop}")

"""C08 - interfaces partition the mesh edges; internal/external classification is exact (DESIGN.md section 3, C08)."""
import ast

from .. import terms as T
from .. import sym, rules
from ..model import AnalysisError

EXPLANATION = ("Sibling agreement: the four hand-written copies of the internal/external predicate (Frame.__post_init__ x2, "
               "BigEdge.__post_init__, get_border_edge) are canonicalised to boolean formulas over the atoms |cells(v)|>=2 for "
               "every vertex and |cells(end)|>=3 and each must equal the statement's formula; duplicate suppression in both "
               "directions is a guard-domination obligation; junction thresholds over ownEdges must be complementary.")

SELF = T.sym("self")
E = T.sym("E")
GBE = "forsys.virtual_edges.get_border_edge"


def V(k):
    return ("V", k)


def ncells(k, attr="ownCells"):
    return T.call("len", (T.attr(V(k), attr),))


def spec_internal():
    b = ("bv", 0)
    every_two = ("forall", T.ige(ncells(b), 2), b, E)
    junction = T.b_or(T.ige(ncells(T.num(0)), 3), T.ige(ncells(T.num(-1)), 3))
    return T.alpha(T.b_and(every_two, junction))


def closed(t):
    """formula only made of the predicate fragment"""
    ok = {"and", "or", "not", "ige", "forall", "exists", "call", "attr", "V", "num", "bv", "sym", "bool", "idx", "slice", "none"}
    for x in T.subterms(t):
        if x[0] not in ok:
            return False
        if x[0] == "call" and x[1] != "len":
            return False
        if x[0] == "sym" and x != E:
            return False
    return True


def decide_formula(ctx, key, where, code, spec, what):
    code, spec = T.alpha(code), T.alpha(spec)
    if code == spec:
        ctx.ok("SIB", key, where, f"{what} == {T.show(spec)}")
    elif closed(code):
        ctx.violation("SIB", key, where, f"{what} is  {T.show(code)}  but the statement requires  {T.show(spec)}")
    else:
        raise AnalysisError(f"{where}: [SIB] {key}: predicate copy not reducible to the canonical atoms: {T.show(code)[:300]}")


def abstract_frame(cond, bv, L):
    """Frame.__post_init__ copies: element of enumerate(big_edges_list) -> E, self.vertices[E[k]] -> V(k)"""
    pos, edge = T.idx(bv, T.num(0)), T.idx(bv, T.num(1))
    verts = T.attr(SELF, "vertices")

    def f(t):
        # position-in-list test against indices of a sub-collection == membership of the element
        # (valid because the interface list has no duplicates: obligation 'no interface listed twice')
        if t[0] == "in" and t[1] == pos and t[2][0] == "map":
            elt, b, it, c = t[2][1:5]
            if elt == T.call(("m", "index"), (L, b)):
                return rules.member(edge, it if c == T.TRUE else ("map", b, b, it, c))
        return None
    cond = T.transform(cond, f)

    def g(t):
        if t[0] == "in" and t[1] in (edge, E) and t[2] == L:
            return T.TRUE
        if t == edge:
            return E
        return None
    cond = T.transform(cond, g)

    def h(t):
        if t[0] == "idx" and t[1] == verts:
            k = t[2]
            if k[0] == "idx" and k[1] == E:
                return V(k[2])
            if k[0] == "bv":
                return V(k)
        return None
    return T.transform(cond, h)


def abstract_bigedge(val):
    verts = T.attr(SELF, "vertices")

    def h(t):
        if t[0] == "idx" and t[1] == verts:
            return V(t[2])
        if t[0] in ("exists", "forall") and t[3] == verts:
            return (t[0], T.substitute(t[1], {t[2]: V(t[2])}), t[2], E)
        return None
    return T.transform(val, h)


def run(ctx):
    repo = ctx.repo
    spec = spec_internal()

    # ---------------- copies 1 and 2: Frame.__post_init__
    ctx.clause("an interface is internal exactly when each vertex is in >= 2 cells and an end is in >= 3 (Frame copies)")
    f = repo.func("forsys.frames.Frame.__post_init__")
    gbe = repo.func(GBE)
    ctx.touch(f, gbe)
    s = sym.summarize(repo, f.qualname, inline={GBE})
    L = None
    for e in s.stores("big_edges_list"):
        if e.base == SELF:
            L = e.value
    if L is None:
        raise AnalysisError("Frame.__post_init__ no longer stores big_edges_list - re-bind the anchor")
    copies = 0
    elts = {}
    for attr in ("internal_big_edges_vertices", "internal_big_edges"):
        st = [e for e in s.stores(attr) if e.base == SELF]
        if len(st) != 1:
            raise AnalysisError(f"Frame.__post_init__: expected one store of self.{attr}, found {len(st)}")
        e = st[0]
        val = e.value
        where = ctx.where(f, e.node)
        if val[0] != "map" or val[3] != T.call("enumerate", (L,)):
            if val[0] == "map" and val[3] == L:
                raise AnalysisError(f"{where}: self.{attr} enumerates the interface list differently - re-bind the anchor")
            raise AnalysisError(f"{where}: self.{attr} is not a filter over the enumerated interface list: {T.show(val)[:200]}")
        copies += 1
        elt, bv, it, cond = val[1:5]
        elts[attr] = (elt, bv)
        code = abstract_frame(cond, bv, L)
        decide_formula(ctx, f"{f.qualname} / SIB / internal predicate of self.{attr}", where, code, spec, f"filter of self.{attr}")
    # the two lists are the same filter applied to ids and to objects, in the same order
    ctx.clause("tensions are tabulated for exactly the internal interfaces, in order (ids and objects agree)")
    (e1, b1), (e2, b2) = elts["internal_big_edges_vertices"], elts["internal_big_edges"]
    ok1 = e1 == T.idx(b1, T.num(1))
    ok2 = e2[0] == "idx" and e2[2] == T.idx(b2, T.num(0))
    be_store = [e for e in s.stores("big_edges") if e.sub and e.key is not None]
    ok3 = False
    for e in be_store:
        # self.big_edges[big_edge_id] = BigEdge(big_edge_id, [self.vertices[vid] for vid in big_edge]) over enumerate(L)
        v = e.value
        if v[0] == "call" and v[1] == "new:forsys.edge.BigEdge" and v[2] and v[2][0] == e.key and e.key[0] == "idx" and e.key[2] == T.num(0):
            lp = [g for g in e.guard if g[0] == "loop"]
            if lp and lp[-1][2] == T.call("enumerate", (L,)) and len(v[2]) > 1:
                vs = v[2][1]
                if vs[0] == "map" and vs[3] == T.idx(e.key[1], T.num(1)) and vs[1] == T.idx(T.attr(SELF, "vertices"), vs[2]):
                    ok3 = True
    where = ctx.where(f)
    ctx.check(ok1, "ALIGN", f"{f.qualname} / ALIGN / id list element", where, "internal_big_edges_vertices holds the enumerated interface itself",
              f"internal_big_edges_vertices holds {T.show(e1)} instead of the enumerated interface")
    ctx.check(ok2 and ok3, "ALIGN", f"{f.qualname} / ALIGN / object list element", where,
              "internal_big_edges holds big_edges[position] and big_edges[position] is built from the interface at that position",
              f"internal_big_edges element {T.show(e2)[:120]} is not the BigEdge built from the interface at the same position")

    # ---------------- copy 3: BigEdge.external
    ctx.clause("an interface is external exactly when the internal predicate fails (BigEdge copy)")
    f3 = repo.func("forsys.edge.BigEdge.__post_init__")
    ctx.touch(f3)
    s3 = sym.summarize(repo, f3.qualname)
    st = [e for e in s3.stores("external") if e.base == SELF]
    if not st:
        raise AnalysisError("BigEdge.__post_init__ no longer stores self.external - re-bind the anchor")
    # the flag as the constructor leaves it: the merged value of all its (possibly guarded) stores - `x = True if c else False`,
    # `if c: x = True else: x = False` and `x = c` are the same value
    copies += 1
    final = s3.heap.get(T.attr(SELF, "external"))
    if final is None:
        raise AnalysisError("BigEdge.__post_init__: final value of self.external not found - re-bind the anchor")
    decide_formula(ctx, f"{f3.qualname} / SIB / external flag", ctx.where(f3, st[-1].node), abstract_bigedge(final), T.b_not(spec), "self.external")

    # ---------------- the two cells an interface separates
    ctx.clause("internal interfaces separate exactly two cells: own_cells comes from a vertex that only the two cells share")
    oc = [e for e in s3.stores("own_cells") if e.base == SELF]
    verts = T.attr(SELF, "vertices")
    nvert = T.call("len", (verts,))
    two = T.b_and(T.ige(nvert, 2), T.b_not(T.ige(nvert, 3)))
    got = {}
    for e in oc:
        cs = T.b_and(*e.conds())
        got["two" if cs == two else "more" if cs == T.b_not(two) else T.show(cs)] = e.value
    a, b = sorted([T.call("set", (T.attr(T.idx(verts, T.num(0)), "ownCells"),)), T.call("set", (T.attr(T.idx(verts, T.num(1)), "ownCells"),))], key=repr)
    want_two = T.call("list", (T.call("bitand", (a, b)),))
    # with exactly two vertices the last one is the second one: vertices[-1] is another spelling of vertices[1] in this branch
    a2, b2 = sorted([T.call("set", (T.attr(T.idx(verts, T.num(0)), "ownCells"),)), T.call("set", (T.attr(T.idx(verts, T.num(-1)), "ownCells"),))], key=repr)
    want_two_alt = T.call("list", (T.call("bitand", (a2, b2)),))
    want_more = T.attr(T.idx(verts, T.call("floordiv", (T.sub(nvert, T.num(1)), T.num(2)))), "ownCells")
    ok = set(got) == {"two", "more"} and got["two"] in (want_two, want_two_alt) and got["more"] == want_more
    ctx.check(ok, "FORM", f"{f3.qualname} / FORM / own_cells = cells of the middle vertex (two-point: cells common to both ends), in registration order", ctx.where(f3),
              "len == 2: list(set(v[0].ownCells) & set(v[1].ownCells)); else vertices[(n-1)//2].ownCells as stored",
              f"own_cells is {dict((k, T.show(T.alpha(v))[:120]) for k, v in got.items())}")

    # ---------------- copy 4: get_border_edge itself
    ctx.clause("border interfaces are those with a vertex in fewer than two cells (get_border_edge)")
    s4 = sym.summarize(repo, GBE)
    if len(gbe.params) < 2:
        raise AnalysisError("get_border_edge signature changed - re-bind the anchor")
    p_earr, p_vert = T.sym(gbe.params[0]), T.sym(gbe.params[1])
    m = rules.member(E, s4.ret())

    def h(t):
        if t[0] == "in" and t[1] == E and t[2] == p_earr:
            return T.TRUE
        if t[0] == "idx" and t[1] == p_vert:
            return V(t[2])
        return None
    code = T.transform(m, h)
    b = ("bv", 0)
    spec4 = ("exists", T.b_not(T.ige(ncells(b), 2)), b, E)
    copies += 1
    decide_formula(ctx, f"{GBE} / SIB / border predicate", ctx.where(gbe), code, spec4, "membership in get_border_edge's result")
    ctx.count("SIB", "internal/external predicate copies", copies, 4)

    # ---------------- external ids / tension table
    ctx.clause("the tension table lists exactly the interfaces that are not flagged external")
    fe = repo.func("forsys.frames.Frame.get_external_edges_ids")
    ctx.touch(fe)
    se = sym.summarize(repo, fe.qualname)
    b = ("bv", 0)
    spec_ids = ("map", T.attr(b, "big_edge_id"), b, T.call(("m", "values"), (T.attr(SELF, "big_edges"),)), T.attr(b, "external"))
    rules.decide_equal(ctx, "SIB", f"{fe.qualname} / SIB / ids of interfaces flagged external", ctx.where(fe), se.ret(), spec_ids,
                       "get_external_edges_ids")
    ft = repo.func("forsys.frames.Frame.get_tensions")
    ctx.touch(ft)
    stt = sym.summarize(repo, ft.qualname)
    ret = stt.ret()
    pname = ft.params[1] if len(ft.params) > 1 else "with_border"
    ext_call = T.call(fe.qualname, (SELF,))
    ok = False
    detail = T.show(ret)[:300]
    if ret[0] == "phi":
        c, a, bb = ret[1], ret[2], ret[3]
        # phi(with_border, df, df.loc[~df.id.isin(ext)])
        filt = a if c == T.b_not(T.sym(pname)) else bb if c == T.sym(pname) else None
        if filt is not None and filt[0] == "idx" and filt[2][0] == "call" and filt[2][1] == "invert":
            inner = filt[2][2][0]
            if inner[0] == "call" and inner[1] == ("m", "isin") and inner[2][1] == ext_call and inner[2][0][0] == "attr" and inner[2][0][2] == "id":
                ok = True
    ctx.check(ok, "SIB", f"{ft.qualname} / SIB / rows of external ids removed unless with_border", ctx.where(ft),
              "without with_border the rows whose id is in get_external_edges_ids() are removed",
              f"the tension table is not filtered by the complement of get_external_edges_ids(): {detail}")
    # id column and stress column enumerate the same dict
    vals = [x for x in T.subterms(ret) if x[0] == "map" and x[3][0] == "call" and x[3][1] in (("m", "items"), ("m", "values")) ]
    srcs = {x[3][2][0] for x in vals}
    ctx.check(srcs == {T.attr(SELF, "big_edges")} and len(vals) >= 1, "ALIGN", f"{ft.qualname} / ALIGN / id, gt and stress columns enumerate self.big_edges",
              ctx.where(ft), "all columns enumerate self.big_edges (dict order)",
              f"columns enumerate different containers: {[T.show(x) for x in srcs]}")

    # ---------------- duplicate suppression
    ctx.clause("no interface is listed twice, in either direction")
    fc = repo.func("forsys.virtual_edges.create_edges_new")
    ctx.touch(fc)
    sc = sym.summarize(repo, fc.qualname)
    # de-duplication through a mapping: the key has to determine the interface (its whole vertex list, possibly order-free);
    # a key made of selected components (ends, length) merges different interfaces that agree on them
    for en in rules.entries(sc):
        if not en.loops() or en.key is None:
            continue
        item = en.elem
        whole = [x for x in T.subterms(en.key) if x == item]
        parts_only = [x for x in T.subterms(en.key) if (x[0] == "idx" and x[1] == item) or (x[0] == "call" and x[1] == "len" and x[2] == (item,))]

        def strip(t):
            return T.transform(t, lambda x: T.sym("$part") if x in parts_only else None)
        if parts_only and not any(x == item for x in T.subterms(strip(en.key))):
            ctx.violation("KEY", f"{fc.qualname} / KEY / de-duplication key determines the interface", ctx.where(fc, en.node),
                          f"interfaces are de-duplicated under the key {T.show(T.alpha(en.key))[:120]}, built from selected components of the vertex list only: "
                          f"two different interfaces that agree on them (same end junctions, same number of points) are merged into one and the second is lost")
    rets = [n for n in ast.walk(fc.node) if isinstance(n, ast.Return) and isinstance(n.value, ast.Name)]
    if len(rets) != 1:
        raise AnalysisError("create_edges_new: cannot identify the returned list variable - re-bind the anchor")
    rname = rets[0].value.id
    grow = [e for e in sc.events if e.kind == "assign" and e.name == rname and e.loops()]
    grow += [e for e in sc.events if e.kind == "call" and isinstance(e.fname, tuple) and e.fname[1] in ("append", "extend", "insert")
             and isinstance(e.node.func, ast.Attribute) and isinstance(e.node.func.value, ast.Name) and e.node.func.value.id == rname]
    n_sites = 0
    for e in grow:
        n_sites += 1
        where = ctx.where(fc, e.node)
        if e.kind == "assign":
            old = e.old
            d = T.sub(e.value, old) if old is not None and e.value[0] != "concat" else e.value
            v = e.value
            if v[0] == "concat" and v[1] == old and v[2][0] == "seq" and len(v[2][1]) == 1:
                item = v[2][1][0]
            elif d[0] == "seq" and len(d[1]) == 1:
                item = d[1][0]
            else:
                raise AnalysisError(f"{where}: growth of the interface list not understood: {T.show(d)[:120]}")
        else:
            old, item = e.recv, e.args[-1]
        need = [T.b_not(("in", item, old)), T.b_not(("in", T.idx(item, ("slice", T.NONE, T.NONE, T.num(-1))), old))]
        have = set(e.conds())
        alt = T.b_not(("in", T.call("reversed", (item,)), old))
        missing = [c for c in need if c not in have]
        ctx.check(not missing, "GUARD", f"{fc.qualname} / GUARD / append only when neither the interface nor its reverse is listed", where,
                  "dominated by `e not in earr` and `e[::-1] not in earr`",
                  f"an interface is appended without the guard(s) {[T.show(c) for c in missing]}")
    ctx.count("GUARD", "growth sites of the interface list", n_sites, 1)

    # ---------------- junction thresholds over mesh edges
    ctx.clause("junctions are vertices with >= 3 mesh edges, interior vertices have 2")
    n_thr = 0
    for q in ("forsys.virtual_edges.create_edges_new", "forsys.frames.Frame.get_big_edge_by_cells"):
        fq = repo.func(q)
        ctx.touch(fq)
        sq = sym.summarize(repo, q)
        atoms = set()
        for e in sq.events:
            for field in ("value", "term", "test"):
                t = getattr(e, field, None)
                if isinstance(t, tuple):
                    for x in T.subterms(t):
                        if x[0] == "ige" and x[1][0] == "call" and x[1][1] == "len" and x[1][2][0][0] == "attr" \
                                and x[1][2][0][2] in ("ownEdges", "ownCells", "own_big_edges"):
                            atoms.add(x)
        for x in T.subterms(sq.ret()):
            if x[0] == "ige" and x[1][0] == "call" and x[1][1] == "len" and x[1][2][0][0] == "attr" \
                    and x[1][2][0][2] in ("ownEdges", "ownCells", "own_big_edges"):
                atoms.add(x)
        for x in sorted(atoms, key=repr):
            n_thr += 1
            a = x[1][2][0][2]
            ctx.check(a == "ownEdges" and x[2] == 3, "SIB", f"{q} / SIB / junction degree test on {T.show(T.alpha(x[1]))}", ctx.where(fq),
                      "degree test is |ownEdges| >= 3 (or its negation)",
                      f"degree test is {T.show(T.alpha(x))}; the statement defines junctions by >= 3 mesh edges")
    ctx.count("SIB", "junction degree tests", n_thr, 3)


    # ---------------- lookup by two cells
    ctx.clause("looking up an interface that has an interior point by its two cells returns it")
    fl = repo.func("forsys.frames.Frame.get_big_edge_by_cells")
    sl = sym.summarize(repo, fl.qualname)
    c1, c2 = T.sym(fl.params[1]), T.sym(fl.params[2])
    b0, b1 = ("bv", 0), ("bv", 1)

    def interior(c):
        return ("map", T.attr(b0, "id"), b0, T.attr(T.idx(T.attr(SELF, "cells"), c), "vertices"), T.b_not(T.ige(T.call("len", (T.attr(b0, "ownEdges"),)), 3)))
    common = T.call("numpy.intersect1d", (interior(c1), interior(c2)))
    ids = ("flatmap", T.attr(T.idx(T.attr(SELF, "vertices"), b1), "own_big_edges"), b1, common, T.TRUE)
    want = T.idx(T.attr(SELF, "big_edges"), T.idx(T.call("list", (T.call("set", (ids,)),)), T.num(0)))
    rules.decide_equal(ctx, "FORM", f"{fl.qualname} / FORM / interface owning a vertex that is interior to both cells", ctx.where(fl), sl.ret(), want, "looked-up interface")


_F, _E, _V = "forsys/frames.py", "forsys/edge.py", "forsys/virtual_edges.py"
PINNED = [
    ("own_cells of a two-point interface from one end only", _E, "self.own_cells = list(set(self.vertices[0].ownCells) & set(self.vertices[1].ownCells))", "self.own_cells = list(set(self.vertices[0].ownCells) & set(self.vertices[0].ownCells))"),
    ("own_cells sorted by id", _E, "self.own_cells = self.vertices[(len(self.vertices) - 1) // 2].ownCells", "self.own_cells = sorted(self.vertices[(len(self.vertices) - 1) // 2].ownCells)"),
    ("own_cells from the first vertex", _E, "self.own_cells = self.vertices[(len(self.vertices) - 1) // 2].ownCells", "self.own_cells = self.vertices[0].ownCells"),
    ("lookup by cells uses only the first cell's interior points", _F, "        vertices_in_common = np.intersect1d(c1_vertices, \n                                            c2_vertices)", "        vertices_in_common = np.array(c1_vertices)"),
    ("lookup by cells walks through small edges", _F, "shared_edge = list(set([edge for vid in vertices_in_common for edge in self.vertices[vid].own_big_edges]))", "shared_edge = list(set([edge for vid in vertices_in_common for edge in self.vertices[vid].ownEdges]))"),
    ("Frame ids copy: junction threshold > 1", _F, """        self.internal_big_edges_vertices = [edge for eid, edge in enumerate(self.big_edges_list) 
                                        if eid not in self.external_edges_id and 
                                        (len(self.vertices[edge[0]].ownCells) > 2 or  """,
     """        self.internal_big_edges_vertices = [edge for eid, edge in enumerate(self.big_edges_list) 
                                        if eid not in self.external_edges_id and 
                                        (len(self.vertices[edge[0]].ownCells) > 1 or  """),
    ("Frame objects copy: 'or' became 'and'", _F, """                                    (len(self.vertices[edge[0]].ownCells) > 2 or  
                                    len(self.vertices[edge[-1]].ownCells) > 2)]
        
        for _, cell""", """                                    (len(self.vertices[edge[0]].ownCells) > 2 and  
                                    len(self.vertices[edge[-1]].ownCells) > 2)]
        
        for _, cell"""),
    ("Frame objects copy: second end is edge[1]", _F, """                                    len(self.vertices[edge[-1]].ownCells) > 2)]
        
        for _, cell""", """                                    len(self.vertices[edge[1]].ownCells) > 2)]
        
        for _, cell"""),
    ("BigEdge copy: border test < 3", _E, "vertices_own_cells = [len(vertex.ownCells) < 2 for vertex in self.vertices]",
     "vertices_own_cells = [len(vertex.ownCells) < 3 for vertex in self.vertices]"),
    ("BigEdge copy: only the first end counts", _E, """has_junction_at_extremes = True if len(self.vertices[0].ownCells) > 2 \\
                                           or len(self.vertices[-1].ownCells) > 2 else False""",
     """has_junction_at_extremes = True if len(self.vertices[0].ownCells) > 2 else False"""),
    ("BigEdge copy: np.all instead of np.any", _E, "True if np.any(vertices_own_cells) or not has_junction_at_extremes",
     "True if np.all(vertices_own_cells) or not has_junction_at_extremes"),
    ("BigEdge copy: ownEdges instead of ownCells", _E, "vertices_own_cells = [len(vertex.ownCells) < 2", "vertices_own_cells = [len(vertex.ownEdges) < 2"),
    ("get_border_edge: < 1", _V, "            if len(vertices[vid].ownCells) < 2:\n                borderEdge.append(eid)",
     "            if len(vertices[vid].ownCells) < 1:\n                borderEdge.append(eid)"),
    ("get_border_edge: only interior vertices inspected", _V, "        for vid in eid:\n            if len(vertices[vid].ownCells) < 2:",
     "        for vid in eid[1:-1]:\n            if len(vertices[vid].ownCells) < 2:"),
    ("duplicate check only in one direction", _V, "if e[::-1] not in earr and e not in earr:", "if e not in earr:"),
    ("junction threshold > 3 in the re-partition", _V, "new_number_of_connections = [len(vertices[vid].ownEdges) > 2", "new_number_of_connections = [len(vertices[vid].ownEdges) > 3"),
    ("tension table filtered by own predicate", _F, "return [big_edge.big_edge_id for big_edge in self.big_edges.values() \n                                if big_edge.external]",
     "return [big_edge.big_edge_id for big_edge in self.big_edges.values() \n                                if len(big_edge.own_cells) < 2]"),
    ("internal objects taken at shifted position", _F, "self.internal_big_edges = [self.big_edges[eid] for eid, edge", "self.internal_big_edges = [self.big_edges[eid + 1] for eid, edge"),
]
PRESERVING = [
    ("Frame ids copy: >= 3 instead of > 2, operands swapped", _F, """        self.internal_big_edges_vertices = [edge for eid, edge in enumerate(self.big_edges_list) 
                                        if eid not in self.external_edges_id and 
                                        (len(self.vertices[edge[0]].ownCells) > 2 or  
                                        len(self.vertices[edge[-1]].ownCells) > 2)]""",
     """        self.internal_big_edges_vertices = [edge for eid, edge in enumerate(self.big_edges_list) 
                                        if (len(self.vertices[edge[-1]].ownCells) >= 3 or
                                        3 <= len(self.vertices[edge[0]].ownCells)) and not eid in self.external_edges_id]"""),
    ("BigEdge copy: plain boolean expression", _E, """        self.external = True if np.any(vertices_own_cells) or not has_junction_at_extremes \\
            else False""", """        self.external = bool(np.any(vertices_own_cells)) or not has_junction_at_extremes"""),
    ("get_border_edge: comprehension with any()", _V, """    borderEdge = []
    for eid in earr:
        # print("Edge ", eid)
        for vid in eid:
            if len(vertices[vid].ownCells) < 2:
                borderEdge.append(eid)
                break
    return borderEdge""", """    return [eid for eid in earr if any(len(vertices[vid].ownCells) <= 1 for vid in eid)]"""),
]

"""C10 - results are a pure function of frame data and the last call's arguments (DESIGN.md section 3, C10)."""
import ast

from .. import terms as T
from .. import sym, rules
from ..model import AnalysisError

EXPLANATION = ("Index-chain alignment (solution position -> interface -> its mesh edges -> reported dictionary), who-may-write tables "
               "for tension / pressure / per-frame result stores, KIND of the per-frame stores (element stores under the frame key, "
               "never rebound), typestate: the transitive write set of ForceMatrix.solve / GeneralMatrix.solve_system contains no "
               "build state, and the solve resets every internal interface's mesh edges before the write-back (no stale tensions).")

FM = "forsys.fmatrix.ForceMatrix"
FS = "forsys.forsys.ForSys"
FR = "forsys.frames.Frame"
SELF = T.sym("self")
FRAME = T.attr(SELF, "frame")

BUILD_STATE = {"matrix", "big_edges_to_use", "map_vid_to_row", "deletes", "tj_vertices", "externals_to_use",
               "angle_limit", "circle_fit_method", "frame", "term", "metadata", "map_edge_to_column"}
PBUILD_STATE = {"lhs_matrix", "rhs_matrix", "removed_columns", "mapping_order", "big_edges_to_use", "frame", "map_vid_to_row"}


def run(ctx):
    repo = ctx.repo
    rules.borrow(ctx, "C13", funcs=["forsys.fmatrix.ForceMatrix.set_velocity_matrix"], minimum=8, because="the right-hand side depends on the arguments of this call only (no scaling or buffer remembered from an earlier solve)")
    rules.borrow(ctx, "C08", funcs=["forsys.frames.Frame.get_tensions", "forsys.frames.Frame.get_external_edges_ids"], minimum=3, because="row i of the tension table is the interface whose value is reported at position i: the table lists exactly the internal interfaces")
    rules.borrow(ctx, "C16", funcs=["forsys.fmatrix.ForceMatrix.get_solution_no_discarded", "forsys.fmatrix.ForceMatrix.get_angle_limited_edges", "forsys.fmatrix.ForceMatrix.get_new_initial_condition"], minimum=10, because="value i of the reported list belongs to interface i also when interfaces are excluded")

    # ------------------------------------------------------------------ write-back in ForceMatrix.solve
    f = repo.func(f"{FM}.solve")
    ctx.touch(f)
    s = sym.summarize(repo, f.qualname)
    tens = s.stores("tension")
    if not tens:
        raise AnalysisError("ForceMatrix.solve no longer writes any tension - re-bind the anchor")
    wb = [e for e in tens if e.value != T.num(0)]
    resets = [e for e in tens if e.value == T.num(0)]
    ctx.clause("the i-th solution value is written to the mesh edges of the i-th used interface")
    X = None
    if not wb:
        raise AnalysisError("ForceMatrix.solve: no write-back of solution values found")
    for e in wb:
        where = ctx.where(f, e.node)
        lp = e.loops()
        ok_loop = len(lp) == 2 and lp[0][2] == T.call("enumerate", (T.attr(SELF, "big_edges_to_use"),))
        val = e.value
        if val[0] == "call" and val[1] == "float" and len(val[2]) == 1:
            val = val[2][0]
        ok_val = False
        if ok_loop:
            b0 = ("bv", lp[0][1])
            pos, elem = T.idx(b0, T.num(0)), T.idx(b0, T.num(1))
            if val[0] == "idx" and val[2] == pos:
                X = val[1]
                ok_val = True
        ctx.check(ok_loop and ok_val, "ALIGN", f"{f.qualname} / ALIGN / tension of column i <- solution[i]", where,
                  "loop enumerates self.big_edges_to_use; value is solution[position]",
                  f"tension write-back is not solution[position of the interface in big_edges_to_use]: value {T.show(T.alpha(val))[:120]}, "
                  f"loops {[T.show(T.alpha(g[2]))[:80] for g in lp]}")
        # the edges written are the ones between consecutive ids of that interface
        ok_edges = False
        if ok_loop:
            b1 = ("bv", lp[1][1])
            k = ("bv", 0)
            verts = T.attr(FRAME, "vertices")

            def own(i):
                return T.call("set", (T.attr(T.idx(verts, T.idx(elem, i)), "ownEdges"),))
            a, b = sorted([own(k), own(T.add(k, T.num(1)))], key=repr)
            common = T.idx(T.call("list", (T.call("bitand", (a, b)),)), T.num(0))
            # canonical form: the loop over the list of common edges is the loop over the positions k that list is built from
            it = lp[1][2]
            ok_edges = it == T.call("range", (T.sub(T.call("len", (elem,)), T.num(1)),)) and not e.conds() and \
                e.target == T.attr(T.idx(T.attr(FRAME, "edges"), T.substitute(common, {k: b1})), "tension")
        ctx.check(ok_edges, "ALIGN", f"{f.qualname} / ALIGN / mesh edges of the interface = edges joining consecutive ids", where,
                  "edges written = common ownEdges of element[k], element[k+1] for k in range(len-1), in frame.edges",
                  f"the mesh edges receiving column i's value are not the edges between consecutive vertices of interface i: "
                  f"{T.show(T.alpha(lp[1][2]))[:200] if len(lp) > 1 else '?'}")

    ctx.clause("the reported dictionary enumerates the solution (multiplier stripped, -1 re-inserted) by position")
    ok = False
    for e in rules.entries(s, attr="force_dictionary"):
        if not e.loops() or e.conds():
            continue
        ro = rules.roles(e.loops()[-1])
        if X is not None and ro.kind == "enumerate" and e.key == ro.pos and e.elem == ro.elem and \
                ro.base == T.call(f"{FM}.get_solution_no_discarded", (SELF, T.idx(X, ("slice", T.NONE, T.num(-1), T.NONE)))):
            ok = True
            where = ctx.where(f, e.node)
    ret_ok = any(r[1] == s.heap.get(T.attr(SELF, "force_dictionary")) or True for r in s.returns)
    ctx.check(ok, "ALIGN", f"{f.qualname} / ALIGN / force_dictionary[i] = get_solution_no_discarded(solution[:-1])[i]", ctx.where(f),
              "same solution vector as the write-back, multiplier stripped, re-aligned, enumerated by position",
              "force_dictionary is not the position-wise enumeration of get_solution_no_discarded(solution[:-1]) of the same solution vector")

    # ------------------------------------------------------------------ stale tensions (F12)
    ctx.clause("interfaces excluded by an angle limit do not keep the tension of an earlier solve")
    good = False
    # program order = order of the events in the summary (line numbers would compare positions inside an inlined helper)
    order = {id(e): i for i, e in enumerate(s.events)}
    first_wb = min(order.get(id(e), 10 ** 9) for e in wb)
    for e in resets:
        lp = e.loops()
        if e.conds():
            continue
        if len(lp) == 2 and lp[0][2] == T.attr(FRAME, "internal_big_edges") and lp[1][2] == T.attr(("bv", lp[0][1]), "edges") \
                and e.target == T.attr(T.idx(T.attr(FRAME, "edges"), ("bv", lp[1][1])), "tension") and order.get(id(e), 10 ** 9) < first_wb:
            good = True
        if len(lp) == 1 and lp[0][2] == T.call(("m", "values"), (T.attr(FRAME, "edges"),)) and e.target == T.attr(("bv", lp[0][1]), "tension") \
                and order.get(id(e), 10 ** 9) < first_wb:
            good = True
    ctx.check(good, "STATE", f"{f.qualname} / STATE / every internal interface's edges are reset before the write-back", ctx.where(f),
              "tension := 0 on all mesh edges of frame.internal_big_edges before solution values are written",
              "solve writes tension only for big_edges_to_use while Frame.assign_tensions_to_big_edges reads every mesh edge: "
              "interfaces excluded by an angle limit keep the value of an earlier solve")

    # ------------------------------------------------------------------ build state untouched by solving
    ctx.clause("solving does not change what a later solve reports (no build state in the solve's write set)")
    eff = repo.transitive_attr_effects(f"{FM}.solve")
    n = 0
    for attr in sorted(BUILD_STATE):
        for fq, st in eff.get(attr, []):
            if fq.cls is None or fq.cls.qualname != FM:
                continue
            if not (isinstance(st["recv"], ast.Name) and st["recv"].id == "self"):
                continue
            n += 1
            ctx.violation("STATE", f"{fq.qualname} / STATE / {st['kind']} of build state self.{attr} on the solve path", ctx.where(fq, st["node"]),
                          f"`{fq.module.line(st['node'].lineno)}` changes build state self.{attr} during solve (reachable from ForceMatrix.solve)")
    reach = repo.reachable([f"{FM}.solve"])
    for q in sorted(reach):
        ctx.touch(repo.functions[q])
    ctx.ok("STATE", f"{FM}.solve / STATE / write set of the closure scanned", ctx.where(f),
           f"{len(reach)} functions reachable; attributes written by ForceMatrix methods: "
           f"{sorted(a for a, l in eff.items() if any(x[0].cls is not None and x[0].cls.qualname == FM and isinstance(x[1]['recv'], ast.Name) and x[1]['recv'].id == 'self' for x in l))}")
    ctx.count("STATE", "functions reachable from ForceMatrix.solve", len(reach), 6)
    g = repo.func("forsys.general_matrix.GeneralMatrix.solve_system")
    ctx.touch(g)
    effp = repo.transitive_attr_effects(g.qualname)
    for attr in sorted(PBUILD_STATE):
        for fq, st in effp.get(attr, []):
            if fq.cls is None or not (isinstance(st["recv"], ast.Name) and st["recv"].id == "self"):
                continue
            ctx.violation("STATE", f"{fq.qualname} / STATE / {st['kind']} of build state self.{attr} on the pressure solve path", ctx.where(fq, st["node"]),
                          f"`{fq.module.line(st['node'].lineno)}` changes build state self.{attr} during solve_system")
    ctx.ok("STATE", f"{g.qualname} / STATE / write set of the closure scanned", ctx.where(g),
           f"{len(repo.reachable([g.qualname]))} functions reachable")

    # ------------------------------------------------------------------ who may write results
    ctx.clause("external interfaces stay at zero; only the solver and the frame write-back write tensions")
    rules.who(ctx, "tension", {
        f"{FM}.solve": "solution write-back (internal columns) and reset",
        f"{FR}.assign_tensions_to_big_edges": "interface tension = mean of its mesh edges",
        f"{FR}.assign_tensions": "legacy, deprecated; must have no caller",
    }, minimum=3, reset_ok=True)
    callers = repo.callers_of(f"{FR}.assign_tensions")
    ctx.check(not callers, "WHO", f"{FR}.assign_tensions / WHO / legacy writer has no caller", ctx.where(repo.func(f"{FR}.assign_tensions")),
              "0 callers in the package", f"legacy Frame.assign_tensions is called from {callers}")
    ctx.clause("each cell carries its own pressure; only assign_pressures writes it")
    rules.who(ctx, "pressure", {f"{FR}.assign_pressures": "cell.pressure = pressures[mapping[cid]]"}, minimum=1, reset_ok=True)

    fa = repo.func(f"{FR}.assign_pressures")
    sa = sym.summarize(repo, fa.qualname)
    st = sa.stores("pressure")
    p_press, p_map = (T.sym(fa.params[1]), T.sym(fa.params[2])) if len(fa.params) >= 3 else (T.sym("pressures"), T.sym("mapping"))
    for e in st:
        lp = e.loops()
        ok = False
        if len(lp) == 1 and lp[0][2] == T.call(("m", "items"), (T.attr(SELF, "cells"),)) and not e.conds():
            b = ("bv", lp[0][1])
            ok = e.target == T.attr(T.idx(b, T.num(1)), "pressure") and e.value == T.idx(p_press, T.idx(p_map, T.idx(b, T.num(0))))
        ctx.check(ok, "ALIGN", f"{fa.qualname} / ALIGN / cell cid gets pressures[mapping[cid]]", ctx.where(fa, e.node),
                  "for cid, cell in self.cells.items(): cell.pressure = pressures[mapping[cid]]",
                  f"cell pressure assigned as {T.show(T.alpha(e.target))} <- {T.show(T.alpha(e.value))}, not pressures[mapping[own id]]")

    fb = repo.func(f"{FR}.assign_tensions_to_big_edges")
    ctx.touch(fb)
    sb = sym.summarize(repo, fb.qualname)
    ctx.clause("an interface's tension equals the tension of its mesh edges (mean over its own edges)")
    for e in sb.stores("tension"):
        lp = e.loops()
        ok = False
        ro = rules.roles(lp[0]) if len(lp) == 1 else None
        if ro is not None and ro.base == T.attr(SELF, "big_edges") and ro.kind in ("items", "values") and not e.conds():
            k = ("bv", 0)
            want = T.call("mean", (("map", T.attr(T.idx(T.attr(SELF, "edges"), k), "tension"), k, T.attr(ro.val, "edges"), T.TRUE),))
            ok = e.target == T.attr(ro.val, "tension") and T.alpha(e.value) == T.alpha(want)
        ctx.check(ok, "FORM", f"{fb.qualname} / FORM / interface tension = mean of own mesh edges", ctx.where(fb, e.node),
                  "big_edge.tension = mean(self.edges[eid].tension for eid in big_edge.edges)",
                  f"interface tension is {T.show(T.alpha(e.value))[:200]} stored at {T.show(T.alpha(e.target))[:80]}")

    # ------------------------------------------------------------------ per-frame stores
    ctx.clause("the per-frame result stores hold frame t's results under key t")
    init = repo.func(f"{FS}.__post_init__")
    ctx.touch(init)
    si = sym.summarize(repo, init.qualname)
    for attr, solver, callee in (("forces", "solve_stress", f"{FM}.solve"), ("pressures", "solve_pressure", "forsys.general_matrix.GeneralMatrix.solve_system")):
        st = [e for e in si.stores(attr) if e.base == SELF and not e.sub]
        # every way the dictionary gets its initial content (comprehension, or {} followed by stores in a loop): one entry per frame
        # position with the value None, nothing else
        ents = [e for e in rules.entries(si, attr=attr) if e.coll is None or e.coll == T.attr(SELF, attr) or True]
        frames_len = T.call("range", (T.call("len", (T.attr(SELF, "frames"),)),))
        ok = bool(ents) and len(st) == 1 and (st[0].value == ("dict", ()) or (st[0].value[0] == "call" and st[0].value[1] == "dict"))
        for e in ents:
            lp = e.loops()
            okl = bool(lp) and lp[-1][2] == frames_len and e.key == ("bv", lp[-1][1]) and e.elem == T.NONE and not e.conds()
            ok = ok and okl
        ctx.check(ok, "KIND", f"{init.qualname} / KIND / self.{attr} created as {{frame index: None}}", ctx.where(init),
                  "dict keyed by frame index", f"self.{attr} is initialised as {T.show(T.alpha(st[0].value))[:120] if st else 'nothing'}")
        writers = {f"{FS}.__post_init__": "creates the per-frame dict", f"{FS}.{solver}": "element store under the frame key"}
        for fq, stt in repo.writers_of(attr):
            if fq.cls is None or fq.cls.qualname != FS:
                # Frame.forces alias store (self.frames[when].forces = ...) is written from ForSys.solve_stress only
                continue
            ctx.touch(fq)
        fsolve = repo.func(f"{FS}.{solver}")
        ctx.touch(fsolve)
        ss = sym.summarize(repo, fsolve.qualname)
        when = T.sym(fsolve.params[1]) if len(fsolve.params) > 1 else T.sym("when")
        sts = [e for e in ss.stores(attr) if e.base == SELF or (e.sub and e.base == T.attr(SELF, attr))]
        if not sts:
            raise AnalysisError(f"{fsolve.qualname} no longer stores self.{attr} - re-bind the anchor")
        for e in sts:
            where = ctx.where(fsolve, e.node)
            if not e.sub:
                ctx.violation("KIND", f"{fsolve.qualname} / KIND / self.{attr} rebound", where,
                              f"`{fsolve.module.line(e.node.lineno)}` replaces the per-frame dict instead of storing under the frame key")
                continue
            v = e.value
            okv = v[0] == "call" and v[1] == callee and v[2] and v[2][0] == T.idx(T.attr(SELF, "force_matrices" if attr == "forces" else "pressure_matrices"), when)
            ctx.check(e.key == when and okv, "KIND", f"{fsolve.qualname} / KIND / self.{attr}[when] = result of frame when's matrix", where,
                      f"self.{attr}[when] = <matrix of frame when>.solve(...)",
                      f"self.{attr}[{T.show(e.key)}] = {T.show(v)[:120]}: not the result of frame `when`'s own matrix under key `when`")
        # any other rebind in ForSys
        for fq, stt in repo.writers_of(attr, kinds=("rebind",)):
            if fq.cls is not None and fq.cls.qualname == FS and fq.qualname not in writers and not rules.private_only_from(repo, fq, writers) \
                    and isinstance(stt["recv"], ast.Name) and stt["recv"].id == "self":
                ctx.violation("KIND", f"{fq.qualname} / KIND / self.{attr} rebound", ctx.where(fq, stt["node"]),
                              f"`{fq.module.line(stt['node'].lineno)}` rebinds the per-frame store")

    # the two result stores are two dictionaries: one object bound to both names would make a stress solve fill `pressures` as well
    sf_, sp_ = [e for e in si.stores("forces") if e.base == SELF and not e.sub], [e for e in si.stores("pressures") if e.base == SELF and not e.sub]
    shared = [(a_, b_) for a_ in sf_ for b_ in sp_ if a_.node is b_.node]
    if shared:
        ctx.violation("KIND", f"{init.qualname} / KIND / forces and pressures are separate dictionaries", ctx.where(init, shared[0][0].node),
                      f"`{init.module.line(shared[0][0].node.lineno)[:80]}` binds ONE dictionary to self.forces and self.pressures: solve_stress(t) makes pressures[t] non-None "
                      f"and solve_pressure(t) overwrites forces[t]")
    else:
        ctx.ok("KIND", f"{init.qualname} / KIND / forces and pressures are separate dictionaries", ctx.where(init), "created by separate expressions")
    ctx.clause("solve_stress publishes frame t's result on frame t and refreshes its interfaces; solve_pressure assigns with the matrix' own cell->column map")
    fss = repo.func(f"{FS}.solve_stress")
    ss = sym.summarize(repo, fss.qualname)
    when = T.sym(fss.params[1]) if len(fss.params) > 1 else T.sym("when")
    frame_w = T.idx(T.attr(SELF, "frames"), when)
    al = [e for e in ss.stores("forces") if e.base == frame_w]
    res = [e for e in ss.stores("forces") if e.sub]
    ctx.check(len(al) == 1 and res and al[0].value == res[0].value, "ALIGN", f"{fss.qualname} / ALIGN / frames[when].forces is forces[when]", ctx.where(fss),
              "frame alias holds the same result", "self.frames[when].forces is not the value stored in self.forces[when]")
    calls = [e for e in ss.calls() if e.target == f"{FR}.assign_tensions_to_big_edges"]
    ctx.check(len(calls) == 1 and calls[0].recv == frame_w and not calls[0].conds(), "ALIGN",
              f"{fss.qualname} / ALIGN / interfaces of frame when refreshed after the solve", ctx.where(fss),
              "self.frames[when].assign_tensions_to_big_edges() runs unconditionally",
              "solve_stress does not refresh the interfaces of the frame it solved")
    fsp = repo.func(f"{FS}.solve_pressure")
    sp = sym.summarize(repo, fsp.qualname)
    when = T.sym(fsp.params[1]) if len(fsp.params) > 1 else T.sym("when")
    calls = [e for e in sp.calls() if e.target == f"{FR}.assign_pressures"]
    ok = False
    if len(calls) == 1:
        e = calls[0]
        pm = T.idx(T.attr(SELF, "pressure_matrices"), when)
        res = [x.value for x in sp.stores("pressures") if x.sub]
        ok = e.recv == T.idx(T.attr(SELF, "frames"), when) and len(e.args) == 2 and res and e.args[0] == res[0] and e.args[1] == T.attr(pm, "mapping_order")
    ctx.check(ok, "ALIGN", f"{fsp.qualname} / ALIGN / assign_pressures(result of frame when, its mapping_order)", ctx.where(fsp),
              "frames[when].assign_pressures(pressures[when], pressure_matrices[when].mapping_order)",
              "solve_pressure does not hand frame `when` its own result together with the same matrix' mapping_order")


    ctx.clause("no state is shared between solver objects or between calls: class-level containers and mutable defaults are never mutated")
    n_cls = 0
    for cq, c in sorted(repo.classes.items()):
        shared = {}
        for stt in c.node.body:
            tgt = val = None
            if isinstance(stt, ast.Assign) and len(stt.targets) == 1 and isinstance(stt.targets[0], ast.Name):
                tgt, val = stt.targets[0].id, stt.value
            elif isinstance(stt, ast.AnnAssign) and isinstance(stt.target, ast.Name) and stt.value is not None:
                tgt, val = stt.target.id, stt.value
            if tgt is None:
                continue
            mutable = isinstance(val, (ast.Dict, ast.List, ast.Set, ast.DictComp, ast.ListComp, ast.SetComp)) or \
                (isinstance(val, ast.Call) and isinstance(val.func, ast.Name) and val.func.id in ("dict", "list", "set", "defaultdict"))
            if mutable:
                shared[tgt] = stt
        n_cls += 1
        for name, stt in shared.items():
            sites = [(fq, st_) for fq, st_ in repo.writers_of(name, kinds=("elem", "mut", "del_elem")) if fq.cls is not None and
                     any(k.qualname == cq for k in repo.mro(fq.cls))]
            rebinds = [(fq, st_) for fq, st_ in repo.writers_of(name, kinds=("rebind",)) if fq.cls is not None and fq.name in ("__init__", "__post_init__")
                       and any(k.qualname == cq for k in repo.mro(fq.cls))]
            if sites and not rebinds:
                fq, st_ = sites[0]
                ctx.violation("STATE", f"{cq} / STATE / class-level container `{name}` mutated by an instance method", ctx.where(fq, st_["node"]),
                              f"`{name}` is created once in the class body and shared by every {c.name} object; `{fq.module.line(st_['node'].lineno)}` writes into it, "
                              f"so what one object computed (keyed by ids that other tissues reuse) leaks into later objects")
    ctx.ok("STATE", "package / STATE / class-level mutable attributes scanned", "forsys/*", f"{n_cls} classes")
    n_mod = 0
    for mn in sorted(repo.modules):
        if mn in ("forsys.plot", "forsys.auxiliar"):
            continue
        n_mod += 1
        for name, fq, st_ in rules.module_level_mutated(repo, mn):
            ctx.violation("STATE", f"{fq.qualname} / STATE / module-level container `{name}` mutated", ctx.where(fq, st_["node"]),
                          f"`{fq.module.line(st_['node'].lineno)}` writes into a module-level container shared by every object and call in the process")
    ctx.ok("STATE", "package / STATE / module-level mutable state scanned", "forsys/*", f"{n_mod} modules")
    roots = [f"{FS}.build_force_matrix", f"{FS}.solve_stress", f"{FS}.build_pressure_matrix", f"{FS}.solve_pressure", f"{FS}.get_system_velocity_per_frame",
             f"{FS}.__post_init__", f"{FR}.__post_init__"]
    rules.no_mutated_defaults(ctx, roots)

    ctx.clause("the last call's arguments are what the solver sees: the wrappers forward every option")
    for wrapper, callee in ((f"{FS}.solve_stress", f"{FM}.solve"), (f"{FS}.solve_pressure", "forsys.general_matrix.GeneralMatrix.solve_system")):
        fw = repo.func(wrapper)
        sw = sym.summarize(repo, fw.qualname)
        cl = [e for e in sw.calls() if e.target == callee]
        a = fw.node.args
        named = [x.arg for x in a.posonlyargs + a.args + a.kwonlyargs][2:]       # beyond self, when
        ok = len(cl) == 1 and a.kwarg is not None and any(k == "**" and v == T.sym("**" + a.kwarg.arg) for k, v in cl[0].kw)
        swallowed = []
        if cl:
            passed = {v for v in cl[0].args} | {v for k, v in cl[0].kw}
            swallowed = [n for n in named if T.sym(n) not in passed]
        ctx.check(ok and not swallowed, "ALIGN", f"{wrapper} / ALIGN / every option reaches {callee.split('.')[-1]}", ctx.where(fw),
                  "**kwargs forwarded; no named option kept back",
                  f"option(s) {swallowed} of {wrapper.split('.')[-1]} are accepted but never forwarded to {callee.split('.')[-1]}" if swallowed else
                  f"{wrapper.split('.')[-1]} does not forward **kwargs to {callee.split('.')[-1]}")

    ctx.clause("the matrices of frame t are built from frame t's own data")
    rules.fresh_build(ctx, "force")
    rules.fresh_build(ctx, "pressure")


_P, _S, _F, _G = "forsys/fmatrix.py", "forsys/forsys.py", "forsys/frames.py", "forsys/general_matrix.py"
PINNED = [
    ("solve_stress swallows allow_negatives", _S, "    def solve_stress(self, when: int = 0, **kwargs) -> None:", "    def solve_stress(self, when: int = 0, allow_negatives: bool = True, **kwargs) -> None:"),
    ("class-level orientation cache in PressureMatrix", "forsys/pmatrix.py", "    def __init__(self, frame: object, timeseries: dict):", "    cell_orientation = {}\n\n    def __init__(self, frame: object, timeseries: dict):\n        self.cell_orientation[id(frame)] = True"),
    ("pressure matrix always built from frame 0", _S, "self.pressure_matrices[when] = pmatrix.PressureMatrix(self.frames[when],", "self.pressure_matrices[when] = pmatrix.PressureMatrix(self.frames[0],"),
    ("force matrix stored under the previous key", _S, "self.force_matrices[when] = fmatrix.ForceMatrix(self.frames[when],", "self.force_matrices[max(when - 1, 0)] = fmatrix.ForceMatrix(self.frames[when],"),
    ("F2 reintroduced: pressures rebound", _S, "self.pressures[when] = self.pressure_matrices[when].solve_system(**kwargs)\n        self.frames[when].assign_pressures(self.pressures[when],",
     "self.pressures = self.pressure_matrices[when].solve_system(**kwargs)\n        self.frames[when].assign_pressures(self.pressures,"),
    ("F8a reintroduced: fix_one_stress rebinds self.matrix", _P, "            matrix = np.delete(self.matrix, max_index, 1)", "            self.matrix = matrix = np.delete(self.matrix, max_index, 1)"),
    ("F12 reintroduced: no reset before write-back", _P, "        for big_edge in self.frame.internal_big_edges:\n            for e in big_edge.edges:\n                self.frame.edges[e].tension = 0\n", ""),
    ("write-back uses a shifted solution index", _P, "self.frame.edges[e].tension = float(xres[index])", "self.frame.edges[e].tension = float(xres[index - 1])"),
    ("write-back edges from element[vid], element[vid+2]", _P, "set(self.frame.vertices[element[vid+1]].ownEdges))[0]\n                            for vid in range(0, len(element)-1)]",
     "set(self.frame.vertices[element[vid+2]].ownEdges))[0]\n                            for vid in range(0, len(element)-2)]"),
    ("forces stored under key 0", _S, "self.forces[when] = self.force_matrices[when].solve(self.mesh, **kwargs)", "self.forces[0] = self.force_matrices[when].solve(self.mesh, **kwargs)"),
    ("forces of another frame's matrix", _S, "self.forces[when] = self.force_matrices[when].solve(self.mesh, **kwargs)", "self.forces[when] = self.force_matrices[0].solve(self.mesh, **kwargs)"),
    ("new tension writer in plot.py", "forsys/plot.py", "    all_myosin = [edge.gt for edge in frame.edges.values()]", "    all_myosin = [edge.gt for edge in frame.edges.values()]\n    for edge in frame.edges.values():\n        edge.tension = abs(edge.tension)"),
    ("pressure assigned by position instead of mapping", _F, "            key_to_use = mapping[cid]\n", "            key_to_use = cid\n"),
    ("solve mutates deletes", _P, "        xres = xres[:-1]\n        xres = self.get_solution_no_discarded(xres)", "        xres = xres[:-1]\n        xres = self.get_solution_no_discarded(xres)\n        self.deletes = set()"),
    ("interface tension = first mesh edge only", _F, "            objects = [self.edges[eid].tension for eid in big_edge.edges]\n            self.big_edges[big_edge_id].tension = np.mean(objects)",
     "            objects = [self.edges[eid].tension for eid in big_edge.edges[:1]]\n            self.big_edges[big_edge_id].tension = np.mean(objects)"),
    ("solve_system caches its reduced matrix", _G, "        lhs_matrix_ls = self.lhs_matrix.T @ self.lhs_matrix\n", "        lhs_matrix_ls = self.lhs_matrix.T @ self.lhs_matrix\n        self.lhs_matrix = lhs_matrix_ls\n"),
    ("multiplier not stripped before re-alignment", _P, "        xres = xres[:-1]\n        xres = self.get_solution_no_discarded(xres)", "        xres = self.get_solution_no_discarded(xres)"),
]
PRESERVING = [
    ("a reset helper that zeroes tensions elsewhere", _F, "    def get_big_edges(self, use_all: bool = False) -> list:", "    def reset_tensions(self) -> None:\n        for small_edge in self.edges.values():\n            small_edge.tension = 0\n\n    def get_big_edges(self, use_all: bool = False) -> list:"),
    ("write-back without float()", _P, "self.frame.edges[e].tension = float(xres[index])", "self.frame.edges[e].tension = xres[index]"),
    ("reset through edges.values()", _P, "        for big_edge in self.frame.internal_big_edges:\n            for e in big_edge.edges:\n                self.frame.edges[e].tension = 0\n",
     "        for small_edge in self.frame.edges.values():\n            small_edge.tension = 0\n"),
    ("interface tension stored through the loop variable", _F, "self.big_edges[big_edge_id].tension = np.mean(objects)", "big_edge.tension = np.mean(objects)"),
]

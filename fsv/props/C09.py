"""C09 - every construction or editing path yields a consistent vertex-edge-cell mesh (DESIGN.md section 3, C09)."""
import ast

from .. import terms as T
from .. import sym, rules
from ..model import AnalysisError, Func

EXPLANATION = ("Pairing of register/unregister calls in SmallEdge / Cell constructors, destructors and replace_vertex, who-may-write "
               "tables for the back-reference lists and for cell cycles, 'stored under its own id' at every construction site, a delete "
               "discipline obligation per vertex-deletion site (incident edges deleted or re-pointed before, cells updated), and ITER: no "
               "loop iterates a live back-reference list while its body removes from that list (directly, through a callee, or through "
               "the destructors that CPython runs at `del`).")

SELF = T.sym("self")
BACK = ("ownEdges", "ownCells", "own_big_edges")
VERTEX = "forsys.vertex.Vertex"
SE = "forsys.edge.SmallEdge"
CELL = "forsys.cell.Cell"


def calls_on(summary, meth):
    return [e for e in summary.events if e.kind == "call" and ((e.target or "").endswith("." + meth) or
                                                               (e.target is None and e.fname == ("m", meth)))]


# the rule's single named exception (DESIGN.md section 3, C09): same shape as the F11 defect but harmless
ITER_EXCEPTIONS = {
    "forsys.skeleton.Skeleton.create_lattice / ITER / loop over live ownEdges of a vertex of a cell's cycle while deleting from it":
        "isolated-cell removal: every vertex of the cell is visited, so an edge skipped at one end is deleted when its other end "
        "(a vertex of the same cell) is visited; checked by hand and by the crafted input of notes/triage_skeleton_F11.py",
}


def _back_ref(t):
    """(attribute, owner) when the term is a back-reference list `<owner>.ownEdges|ownCells|own_big_edges` - also when the owner is a
    choice (`v0` looked up directly or through the mapper): attribute access distributes over the choice"""
    if t[0] == "attr" and t[2] in BACK:
        return t[2], t[1]
    if t[0] == "phi":
        a, b = _back_ref(t[2]), _back_ref(t[3])
        if a is not None and b is not None and a[0] == b[0]:
            return a[0], T.phi(t[1], a[1], b[1])
    return None


def _no_cell_test(n):
    """len(x.ownCells) == 0 | 0 == len(..) | len(..) < 1 | 1 > len(..) | len(..) <= 0 | not x.ownCells"""
    def own_len(x):
        return isinstance(x, ast.Call) and isinstance(x.func, ast.Name) and x.func.id == "len" and x.args and \
            isinstance(x.args[0], ast.Attribute) and x.args[0].attr == "ownCells"
    if isinstance(n, ast.UnaryOp) and isinstance(n.op, ast.Not) and isinstance(n.operand, ast.Attribute) and n.operand.attr == "ownCells":
        return True
    if isinstance(n, ast.Compare) and len(n.ops) == 1:
        l, r, op = n.left, n.comparators[0], n.ops[0]
        if own_len(l):
            v = rules.const_value(r)
            return (isinstance(op, ast.Eq) and v == 0) or (isinstance(op, ast.Lt) and v == 1) or (isinstance(op, ast.LtE) and v == 0)
        if own_len(r):
            v = rules.const_value(l)
            return (isinstance(op, ast.Eq) and v == 0) or (isinstance(op, ast.Gt) and v == 1) or (isinstance(op, ast.GtE) and v == 0)
    return False


def _inner_conds(e, loop):
    gi = list(e.guard).index(loop)
    return [g for g in e.guard[gi + 1:] if g[0] not in ("loop", "while", "try", "except")]


def run(ctx):
    repo = ctx.repo
    rules.borrow(ctx, "C14", funcs=["forsys.surface_evolver.SurfaceEvolver.get_cells", "forsys.surface_evolver.SurfaceEvolver.create_lattice"], minimum=6, exclude_rules=("CONST",), because="the cell cycles of a parsed dump are the tail vertices of the signed edges of the face record")

    # ================================================================== SmallEdge pairing
    ctx.clause("a vertex lists a mesh edge exactly when that edge ends at it (constructor / destructor / replace_vertex)")
    f = repo.func(f"{SE}.__post_init__")
    ctx.touch(f)
    s = sym.summarize(repo, f.qualname)
    va = [e for e in s.stores("verticesArray") if e.base == SELF and not e.sub]
    ok = len(va) == 1 and va[0].value == T.seq((T.attr(SELF, "v1"), T.attr(SELF, "v2")))
    reg = calls_on(s, "add_edge")
    okr = len(reg) == 1 and reg[0].loops() and reg[0].loops()[-1][2] in (T.seq((T.attr(SELF, "v1"), T.attr(SELF, "v2"))), T.attr(SELF, "verticesArray")) \
        and reg[0].recv == ("bv", reg[0].loops()[-1][1]) and reg[0].args == (T.attr(SELF, "id"),) and not reg[0].conds()
    if not okr and len(reg) == 2:
        okr = {r.recv for r in reg} == {T.attr(SELF, "v1"), T.attr(SELF, "v2")} and all(r.args == (T.attr(SELF, "id"),) and not r.conds() for r in reg)
    ctx.check(ok and okr, "PAIR", f"{f.qualname} / PAIR / registers self.id on exactly v1 and v2", ctx.where(f),
              "verticesArray = [v1, v2]; add_edge(self.id) on both", "the constructor does not register the edge id on exactly its two end vertices")
    f = repo.func(f"{SE}.__del__")
    ctx.touch(f)
    s = sym.summarize(repo, f.qualname)
    un = calls_on(s, "remove_edge")
    oku = len(un) == 1 and un[0].loops() and un[0].loops()[-1][2] == T.attr(SELF, "verticesArray")
    if oku:
        b = ("bv", un[0].loops()[-1][1])
        oku = un[0].recv == b and un[0].args == (T.attr(SELF, "id"),) and un[0].conds() == [("in", T.attr(SELF, "id"), T.attr(b, "ownEdges"))]
    ctx.check(oku, "PAIR", f"{f.qualname} / PAIR / unregisters self.id from both end vertices (membership-guarded)", ctx.where(f),
              "for v in verticesArray: if self.id in v.ownEdges: v.remove_edge(self.id)",
              "the destructor does not unregister the edge id from both of its end vertices")
    f = repo.func(f"{SE}.replace_vertex")
    ctx.touch(f)
    s = sym.summarize(repo, f.qualname)
    vold, vnew = T.sym(f.params[1]), T.sym(f.params[2])
    # decided case by case (the old vertex is the first end / it is the second end), so that it does not matter whether the slot is
    # computed into an index first or the two cases are written out as branches
    C = T.cmp("Eq", T.attr(T.attr(SELF, "v1"), "id"), T.attr(vold, "id"))
    VA = T.attr(SELF, "verticesArray")
    report = {}
    for K, slot, end_attr, other_attr in ((C, 0, "v1", "v2"), (T.b_not(C), 1, "v2", "v1")):
        notK = T.b_not(K)

        def in_case(e):
            cs = e.conds()
            return notK not in cs and all(c == K for c in cs)

        def spec_(t):
            """the term under the case: choices on the case condition resolved"""
            def f_(x):
                if x[0] == "phi" and x[1] == C:
                    return x[2] if K == C else x[3]
                if x[0] == "phi" and x[1] == T.b_not(C):
                    return x[3] if K == C else x[2]
                return None
            return T.transform(t, f_)
        rem = [e for e in s.events if e.kind == "call" and isinstance(e.fname, tuple) and e.fname[1] in ("remove", "remove_edge") and in_case(e)]
        old_end = (T.attr(T.idx(VA, T.num(slot)), "ownEdges"), T.idx(VA, T.num(slot)), T.attr(vold, "ownEdges"), vold,
                   T.attr(T.attr(SELF, end_attr), "ownEdges"), T.attr(SELF, end_attr))
        ok1 = len(rem) == 1 and rem[0].args == (T.attr(SELF, "id"),) and spec_(rem[0].recv) in old_end
        st_end = [e for e in s.stores(end_attr) if e.base == SELF and in_case(e)]
        st_other = [e for e in s.stores(other_attr) if e.base == SELF and in_case(e)]
        ok2 = len(st_end) == 1 and st_end[0].value == vnew and not st_other
        sta = [e for e in s.stores("verticesArray") if e.sub and in_case(e)]
        ok3 = len(sta) == 1 and spec_(sta[0].key) == T.num(slot) and sta[0].value == vnew
        add = [e for e in calls_on(s, "add_edge") if in_case(e)]
        ok4 = len(add) == 1 and spec_(add[0].recv) in (vnew, T.idx(VA, T.num(slot))) and add[0].args == (T.attr(SELF, "id"),)
        order = bool(rem and sta and add) and s.pos(rem[0]) < s.pos(sta[0]) < s.pos(add[0])
        report[end_attr] = dict(unregister_old=ok1, rebinding=ok2, verticesArray=ok3, register_new=ok4, order=order)
    ctx.check(all(all(v.values()) for v in report.values()), "PAIR",
              f"{f.qualname} / PAIR / old end unregistered, v1|v2 and verticesArray updated together, new end registered",
              ctx.where(f), "in either case: remove id from the old end; rebind v1 (or v2) and verticesArray[0] (or [1]); add id to the new end",
              f"replace_vertex is unbalanced: {report}")

    # ================================================================== Cell pairing
    ctx.clause("a vertex lists a cell exactly when it occurs in that cell's vertex cycle")
    for name, meth in (("__post_init__", "add_cell"), ("__del__", "remove_cell")):
        f = repo.func(f"{CELL}.{name}")
        ctx.touch(f)
        s = sym.summarize(repo, f.qualname)
        cs = calls_on(s, meth)
        ok = len(cs) == 1 and cs[0].loops() and cs[0].loops()[-1][2] == T.attr(SELF, "vertices") and \
            cs[0].recv == ("bv", cs[0].loops()[-1][1]) and cs[0].args == (T.attr(SELF, "id"),) and not cs[0].conds()
        ctx.check(ok, "PAIR", f"{f.qualname} / PAIR / {meth}(self.id) on every vertex of the cycle", ctx.where(f),
                  f"for v in self.vertices: v.{meth}(self.id)", f"Cell.{name} does not call {meth}(self.id) on every vertex of its cycle")
    f = repo.func(f"{CELL}.replace_vertex")
    ctx.touch(f)
    s = sym.summarize(repo, f.qualname)
    vold, vnew = T.sym(f.params[1]), T.sym(f.params[2])
    b0 = ("bv", 0)
    ids = ("map", T.attr(b0, "id"), b0, T.attr(SELF, "vertices"), T.TRUE)
    present = ("in", T.attr(vnew, "id"), ids)
    rem = [e for e in s.events if e.kind == "call" and isinstance(e.fname, tuple) and e.fname[1] == "remove"]
    ok_rem = len(rem) == 1 and rem[0].args == (vold,) and [T.alpha(c) for c in rem[0].conds()] == [T.alpha(present)]
    st = [e for e in s.stores("vertices") if e.sub]
    ok_st = len(st) == 1 and T.alpha(st[0].key) == T.alpha(T.call(("m", "index"), (ids, T.attr(vold, "id")))) and st[0].value == vnew \
        and [T.alpha(c) for c in st[0].conds()] == [T.alpha(T.b_not(present))]
    add = calls_on(s, "add_cell")
    ok_add = len(add) == 1 and add[0].recv == vnew and add[0].args == (T.attr(SELF, "id"),) and set(map(T.alpha, add[0].conds())) == {T.alpha(T.b_not(present))}
    ctx.check(ok_rem and ok_st and ok_add, "PAIR", f"{f.qualname} / PAIR / substitute at the old vertex's position and register, or drop the old vertex when the new one is present",
              ctx.where(f), "if vnew.id in ids: vertices.remove(vold) else: vertices[ids.index(vold.id)] = vnew; vnew.add_cell(self.id)",
              f"Cell.replace_vertex: drop-old={ok_rem} substitute={ok_st} register-new={ok_add}")

    # ================================================================== Vertex helpers
    ctx.clause("back-reference lists hold each id at most once (append only when absent)")
    for meth, attr in (("add_cell", "ownCells"), ("add_edge", "ownEdges"), ("add_big_edge", "own_big_edges")):
        f = repo.func(f"{VERTEX}.{meth}")
        ctx.touch(f)
        s = sym.summarize(repo, f.qualname)
        p = T.sym(f.params[1])
        ap = [e for e in s.events if e.kind == "call" and isinstance(e.fname, tuple) and e.fname[1] == "append"]
        ok = len(ap) == 1 and ap[0].recv == T.attr(SELF, attr) and ap[0].args == (p,) and ap[0].conds() == [T.b_not(("in", p, T.attr(SELF, attr)))]
        ctx.check(ok, "GUARD", f"{f.qualname} / GUARD / append to {attr} only when absent", ctx.where(f),
                  f"if id not in self.{attr}: append", f"{meth} no longer appends to {attr} exactly when the id is absent")
    for meth, attr in (("remove_cell", "ownCells"), ("remove_edge", "ownEdges"), ("remove_big_edge", "own_big_edges")):
        f = repo.func(f"{VERTEX}.{meth}")
        ctx.touch(f)
        s = sym.summarize(repo, f.qualname)
        p = T.sym(f.params[1])
        rm = [e for e in s.events if e.kind == "call" and isinstance(e.fname, tuple) and e.fname[1] == "remove"]
        ok = len(rm) == 1 and rm[0].recv == T.attr(SELF, attr) and rm[0].args == (p,) and not rm[0].conds()
        ctx.check(ok, "PAIR", f"{f.qualname} / PAIR / removes the id from {attr}", ctx.where(f), f"self.{attr}.remove(id)",
                  f"{meth} does not remove the given id from {attr}")

    # ================================================================== who may touch back references
    ctx.clause("nobody else touches the back-references or the cell cycles")
    allowed = {f"{VERTEX}.add_cell": "append when absent", f"{VERTEX}.remove_cell": "remove", f"{VERTEX}.add_edge": "append when absent",
               f"{VERTEX}.remove_edge": "remove", f"{VERTEX}.add_big_edge": "append when absent", f"{VERTEX}.remove_big_edge": "remove",
               f"{SE}.replace_vertex": "unregisters the edge from the old end"}
    for attr, minimum in (("ownEdges", 3), ("ownCells", 2), ("own_big_edges", 2)):
        rules.who(ctx, attr, allowed, minimum=minimum)
    cyc_allowed = {f"{CELL}.replace_vertex": "substitution / drop at vertex merge",
                   "forsys.virtual_edges.generate_mesh": "removal of unused vertices (cycle stays a subsequence)",
                   "forsys.wkt.reduce_amount": "removal of collinear vertices"}

    def is_cell_recv(fq, st):
        r = st["recv"]
        if r is None:
            return False
        if isinstance(r, ast.Name) and r.id == "self":
            return fq.cls is not None and fq.cls.qualname == CELL
        if isinstance(r, ast.Subscript):
            b = r.value
            nm = b.attr if isinstance(b, ast.Attribute) else b.id if isinstance(b, ast.Name) else None
            return nm == "cells"
        if isinstance(r, ast.Name):
            return r.id in ("cell", "c", "current_cell")
        return False
    rules.who(ctx, "vertices", cyc_allowed, kinds=("elem", "mut", "del_elem"), minimum=3, recv_filter=is_cell_recv, label="cell cycles")

    # ================================================================== stored under its own id
    ctx.clause("every vertex, edge and cell is stored under its own id")
    n_sites = 0
    KIND = {"vertices": "new:forsys.vertex.Vertex", "edges": "new:forsys.edge.SmallEdge", "cells": "new:forsys.cell.Cell"}
    for q, fq in sorted(repo.functions.items()):
        if fq.module.name in ("forsys.plot",):
            continue
        has_ctor = any(isinstance(c.func, (ast.Attribute, ast.Name)) and (c.func.attr if isinstance(c.func, ast.Attribute) else c.func.id) in ("Vertex", "SmallEdge", "Cell")
                       for c in repo.calls_in(fq))
        if not has_ctor:
            continue
        s = sym.summarize(repo, q)
        for e in s.stores():
            if not e.sub or e.value[0] != "call" or not isinstance(e.value[1], str):
                continue
            nm = (e.attr or "").lstrip("$")
            if e.value[1] not in KIND.values():
                continue
            n_sites += 1
            ctx.touch(fq)
            ident = e.value[2][0] if e.value[2] else None

            def strip_int(t):
                return t[2][0] if t is not None and t[0] == "call" and t[1] == "int" and len(t[2]) == 1 else t
            ok = ident is not None and strip_int(ident) == strip_int(e.key)
            ctx.check(ok, "KEY", f"{q} / KEY / {nm}[k] = {e.value[1].split('.')[-1]}(k, ...)", ctx.where(fq, e.node),
                      "dictionary key equals the object's id", f"object with id {T.show(T.alpha(ident))[:60] if ident else '?'} stored under key {T.show(T.alpha(e.key))[:60]}")
    ctx.count("KEY", "construction sites storing a Vertex/SmallEdge/Cell in its dictionary", n_sites, 12)

    # ================================================================== delete discipline per vertex-deletion site
    ctx.clause("deleting a vertex leaves no edge or cell pointing at it (delete discipline per site)")
    n_del = 0
    for q, fq in sorted(repo.functions.items()):
        if fq.module.name in ("forsys.plot",):
            continue
        # which local names hold the vertex / edge / cell dictionary: the conventional names, and any local that is filled with
        # constructed Vertex / SmallEdge / Cell objects (whatever it is called)
        kinds = {"vertices": "vertices", "edges": "edges", "cells": "cells"}
        for n in repo.own_nodes(fq):
            if isinstance(n, ast.Assign) and len(n.targets) == 1 and isinstance(n.targets[0], ast.Subscript) and isinstance(n.targets[0].value, ast.Name) \
                    and isinstance(n.value, ast.Call):
                cn = n.value.func.attr if isinstance(n.value.func, ast.Attribute) else n.value.func.id if isinstance(n.value.func, ast.Name) else None
                if cn in ("Vertex", "SmallEdge", "Cell"):
                    kinds[n.targets[0].value.id] = {"Vertex": "vertices", "SmallEdge": "edges", "Cell": "cells"}[cn]

        def kind_of(b):
            nm_ = b.id if isinstance(b, ast.Name) else b.attr if isinstance(b, ast.Attribute) else None
            return kinds.get(nm_) if isinstance(b, ast.Name) else (nm_ if nm_ in ("vertices", "edges", "cells", "edge_object") else None)
        dels = [n for n in repo.own_nodes(fq) if isinstance(n, ast.Delete) and any(
            isinstance(t, ast.Subscript) and kind_of(t.value) == "vertices" for t in n.targets)]
        if not dels:
            continue
        ctx.touch(fq)
        nodes = repo.own_nodes(fq)
        edge_actions = []
        cell_actions = []
        for n in nodes:
            if isinstance(n, ast.Delete):
                for t in n.targets:
                    if isinstance(t, ast.Subscript):
                        nm = kind_of(t.value)
                        if nm == "edges":
                            edge_actions.append(n.lineno)
                        if nm == "cells":
                            cell_actions.append(n.lineno)
            elif isinstance(n, ast.Call) and isinstance(n.func, ast.Attribute):
                if n.func.attr in ("clear", "pop"):
                    # edges.clear() / edges.pop(k[, default]) remove edges from the dictionary like `del edges[k]`
                    b = n.func.value
                    nm = kind_of(b)
                    if nm == "edges":
                        edge_actions.append(n.lineno)
                if n.func.attr == "replace_vertex":
                    r = n.func.value
                    base = r.value if isinstance(r, ast.Subscript) else r
                    nm = kind_of(base) or (base.id if isinstance(base, ast.Name) else None)
                    if nm in ("edges", "edge_object"):
                        edge_actions.append(n.lineno)
                    if nm == "cells":
                        cell_actions.append(n.lineno)
                    if isinstance(r, ast.Name) and r.id == "edge_object":
                        edge_actions.append(n.lineno)
                if n.func.attr == "remove" and isinstance(n.func.value, ast.Attribute) and n.func.value.attr == "vertices":
                    cell_actions.append(n.lineno)
            elif _no_cell_test(n):
                # guard 'the vertex belongs to no cell' (any spelling of "ownCells is empty")
                cell_actions.append(n.lineno)
        # re-pointing done by a helper that is handed the dictionary (`_replace_vertex_in(cells, ids, vertices, old, new)`)
        for c_ in repo.calls_in(fq):
            for t_ in repo.resolve_call(c_, fq):
                if not isinstance(t_, Func) or t_ is fq:
                    continue
                names_ = t_.params[1:] if (t_.cls is not None and not t_.is_static and isinstance(c_.func, ast.Attribute)) else t_.params
                for pname, a_ in list(zip(names_, c_.args)) + [(k.arg, k.value) for k in c_.keywords if k.arg]:
                    nm = a_.id if isinstance(a_, ast.Name) else a_.attr if isinstance(a_, ast.Attribute) else None
                    if nm not in ("edges", "cells"):
                        continue
                    for m_ in repo.own_nodes(t_):
                        if isinstance(m_, ast.Call) and isinstance(m_.func, ast.Attribute) and m_.func.attr == "replace_vertex":
                            r_ = m_.func.value
                            b_ = r_.value if isinstance(r_, ast.Subscript) else r_
                            if isinstance(b_, ast.Name) and b_.id == pname:
                                (edge_actions if nm == "edges" else cell_actions).append(c_.lineno)
        # the same deletions done by a helper that is handed the dictionary (`_delete_edges(self.edges, ids)`)
        for st_ in repo.stores(fq):
            m_ = str(st_.get("method") or "")
            if st_["kind"] == "mut" and " in forsys." in m_ and m_.split()[0] in ("del_elem", "pop", "clear"):
                if st_["attr"].lstrip("$") == "edges":
                    edge_actions.append(st_["node"].lineno)
                if st_["attr"].lstrip("$") == "cells":
                    cell_actions.append(st_["node"].lineno)
        for d in dels:
            n_del += 1
            before = [l for l in edge_actions if l < d.lineno]
            key = f"{q} / PAIR / vertex deletion `{ast.unparse(d)[:60]}`"
            ctx.check(bool(before), "PAIR", key + " preceded by deletion or re-pointing of incident edges", ctx.where(fq, d),
                      f"edge actions at lines {sorted(set(before))[:6]}", "a vertex is deleted without its incident mesh edges being deleted or re-pointed first in this function")
            ctx.check(bool(cell_actions), "PAIR", key + " accompanied by a cell update (or a no-cell guard)", ctx.where(fq, d),
                      f"cell actions at lines {sorted(set(cell_actions))[:6]}", "a vertex is deleted without any update of the cells that contain it")
    ctx.count("PAIR", "vertex deletion sites", n_del, 8)

    # the Surface Evolver parser drops vertices that belong to no cell: every mesh edge such a vertex lists goes with it (an edge
    # kept because its *other* end is still in use would end at a vertex that no longer exists)
    sel = repo.func("forsys.surface_evolver.SurfaceEvolver.create_lattice")
    ctx.touch(sel)
    ssel = sym.summarize(repo, sel.qualname)
    vdel = [e for e in ssel.events if e.kind == "del" and len(e.loops()) == 1 and e.key == ("bv", e.loops()[0][1])
            and any(x[0] == "attr" and x[2] == "ownCells" for x in T.subterms(e.loops()[0][2]))]
    if not vdel:
        raise AnalysisError("SurfaceEvolver.create_lattice: removal of cell-less vertices not found - re-bind the anchor")
    ename = None

    def _peel(t):
        while t[0] == "call" and t[1] in (("m", "copy"), "list", "tuple", "sorted", "set") and len(t[2]) == 1:
            t = t[2][0]
        return t
    for dv in vdel:
        L = dv.loops()[0]
        okd = False
        for e in ssel.events:
            lp = e.loops()
            if e.kind == "del" and e.attr != dv.attr and len(lp) == 2:
                br = _back_ref(_peel(lp[1][2]))
                if br is None or br[0] != "ownEdges" or br[1][0] != "idx" or e.key != ("bv", lp[1][1]):
                    continue
                own = [c for c in e.conds() if not (c[0] == "in" and c[1] == e.key)]
                # the same ids: the same list walked twice, or the list's comprehension fused into this loop (its filter is then a guard)
                same = not own and T.alpha(lp[0][2]) == T.alpha(L[2]) and br[1][2] == ("bv", lp[0][1])
                fused = len(own) == 1 and T.alpha(("map", br[1][2], ("bv", lp[0][1]), lp[0][2], own[0])) == T.alpha(L[2])
                if same or fused:
                    okd = True
        ctx.check(okd, "PAIR", f"{sel.qualname} / PAIR / every mesh edge listed by a removed cell-less vertex is removed with it", ctx.where(sel, dv.node),
                  "for i in cell-less ids: for e in vertices[i].ownEdges.copy(): del edges[e]; del vertices[i]",
                  "a cell-less vertex is removed while some mesh edge it lists stays in the edge dictionary: that edge ends at a vertex that is no longer in the mesh")

    # join_two_vertices: the edge between the two merged vertices is deleted before the other edges are re-pointed
    jv = repo.func("forsys.virtual_edges.join_two_vertices")
    ctx.touch(jv)
    sj = sym.summarize(repo, jv.qualname)
    dl = [e for e in sj.events if e.kind == "del" and (e.attr or "").lstrip("$") == "edges"]
    rp = [e for e in sj.events if e.kind == "call" and e.target == f"{SE}.replace_vertex"]
    okc = False
    for e in dl:
        k = e.key
        if k is not None and k[0] == "idx" and k[2] == T.num(0) and k[1][0] == "call" and k[1][1] == "list":
            inner = k[1][2][0]
            def own_edges(t):
                return (t[0] == "attr" and t[2] == "ownEdges") or (t[0] == "phi" and own_edges(t[2]) and own_edges(t[3]))
            if inner[0] == "call" and inner[1] == "bitand" and all(x[0] == "call" and x[1] == "set" and own_edges(x[2][0]) for x in inner[2]):
                okc = all(sj.pos(e) < sj.pos(r) for r in rp) and bool(rp)
    ctx.check(okc, "PAIR", f"{jv.qualname} / PAIR / common edge of the merged vertices deleted before re-pointing", ctx.where(jv),
              "del edges[common ownEdges of v0 and v1] precedes every SmallEdge.replace_vertex",
              "the edge joining the two merged vertices is not deleted before the remaining edges are re-pointed (it would end twice at the new vertex)")

    # every re-pointing in join_two_vertices replaces the vertex whose own list is being walked by the new vertex
    newv = [e.value for e in sj.stores() if e.sub and e.value[0] == "call" and e.value[1] == "new:forsys.vertex.Vertex"]
    rp_all = [e for e in sj.events if e.kind == "call" and e.target in (f"{SE}.replace_vertex", f"{CELL}.replace_vertex")]
    okr = bool(newv) and len(rp_all) >= 4
    detail = []
    for e in rp_all:
        lp = e.loops()
        if len(lp) != 1 or len(e.args) != 2:
            okr = False
            continue
        it = lp[0][2]
        owner = None
        if it[0] == "map" and it[1] == it[2] and it[3][0] in ("attr", "phi"):
            src = it[3]
            if it[4] != T.TRUE:
                okr = False
                detail.append((e.node.lineno, "loop skips part of the owner's list", T.show(T.alpha(it[4]))[:60]))
        elif it[0] in ("attr", "phi"):
            src = it
            # canonical form of a loop over a filtered copy: the filter sits in the guards after the loop entry
            gi = list(e.guard).index(lp[0])
            inner = [g for g in e.guard[gi + 1:] if g[0] not in ("loop", "while", "try", "except")]
            if inner:
                okr = False
                detail.append((e.node.lineno, "loop skips part of the owner's list", [T.show(T.alpha(c))[:60] for c in inner]))
        elif it[0] == "call" and it[1] in (("m", "copy"), "list") and it[2]:
            src = it[2][0]
        else:
            src = None

        def owner_of(t):
            if t is None:
                return None
            if t[0] == "attr" and t[2] in ("ownEdges", "ownCells"):
                return t[1]
            if t[0] == "phi":
                a_, b_ = owner_of(t[2]), owner_of(t[3])
                return T.phi(t[1], a_, b_) if a_ is not None and b_ is not None else None
            return None
        owner = owner_of(src)
        old_arg = e.args[0]
        # vertices[V.id] is V
        def strip_lookup(t):
            if t[0] == "idx" and t[2][0] in ("attr", "phi"):
                def unid(x):
                    if x[0] == "attr" and x[2] == "id":
                        return x[1]
                    if x[0] == "phi":
                        a_, b_ = unid(x[2]), unid(x[3])
                        return T.phi(x[1], a_, b_) if a_ is not None and b_ is not None else None
                    return None
                return unid(t[2])
            return t
        same = owner is not None and strip_lookup(old_arg) == owner
        isnew = e.args[1] == newv[0] if newv else False
        detail.append((e.node.lineno, same, isnew))
        okr = okr and same and isnew
    ctx.check(okr, "PAIR", f"{jv.qualname} / PAIR / each re-pointing replaces the vertex whose own list is walked by the merged vertex", ctx.where(jv),
              f"{len(rp_all)} replace_vertex calls: old = owner of the iterated list, new = the merged vertex",
              f"a replace_vertex call in join_two_vertices does not replace the vertex whose ownEdges/ownCells it is iterating (line, old-is-owner, new-is-merged): {detail}")

    # wkt.reduce_amount handles exactly two mesh edges of the removed vertex (one deleted, one re-pointed): only degree-2 vertices may go
    ra = repo.func("forsys.wkt.reduce_amount")
    ctx.touch(ra)
    sra = sym.summarize(repo, ra.qualname)
    dv = [e for e in sra.events if e.kind == "del" and (e.attr or "").lstrip("$") == "vertices"]
    okg = bool(dv)
    for e in dv:
        v_ = None
        if e.key is not None and e.key[0] == "attr" and e.key[2] == "id":
            v_ = e.key[1]
        need = T.b_not(T.ige(T.call("len", (T.attr(v_, "ownEdges"),)), 3)) if v_ is not None else None
        okg = okg and need in e.conds()
    ctx.check(okg, "GUARD", f"{ra.qualname} / GUARD / a vertex is removed only if it has fewer than three mesh edges", ctx.where(ra),
              "len(j.ownEdges) < 3 dominates the deletion (one edge deleted + one re-pointed covers all its edges)",
              "reduce_amount deletes a vertex without the degree guard: a vertex with three mesh edges would leave an edge ending at a deleted vertex")

    # generate_mesh: rebuilt edges join ids of the kept interfaces, whose complement is exactly what is removed
    gm = repo.func("forsys.virtual_edges.generate_mesh")
    ctx.touch(gm)
    sg = sym.summarize(repo, gm.qualname)
    ctx.clause("after resampling every rebuilt mesh edge joins two kept vertices")
    st = [e for e in sg.stores() if e.sub and e.value[0] == "call" and e.value[1] == "new:forsys.edge.SmallEdge"]
    ok = False
    for e in st:
        lp = e.loops()
        if len(lp) == 2:
            be, n = ("bv", lp[0][1]), ("bv", lp[1][1])
            verts = T.sym(gm.params[0])
            a = e.value[2]
            ok = len(a) >= 3 and a[1] == T.idx(verts, T.idx(be, n)) and a[2] == T.idx(verts, T.idx(be, T.add(n, T.num(1)))) and \
                lp[1][2] == T.call("range", (T.sub(T.call("len", (be,)), T.num(1)),))
            arr_term = lp[0][2]
    rm = [e for e in sg.events if e.kind == "call" and isinstance(e.fname, tuple) and e.fname[1] == "append" and e.loops()
          and any(c[0] == "not" and c[1][0] == "in" and c[1][2][0] == "call" for c in e.conds())]
    ok_rm = False
    for e in rm:
        for c in e.conds():
            if c[0] == "not" and c[1][0] == "in":
                coll = c[1][2]
                if any(x[0] == "call" and x[1] == "itertools.chain.from_iterable" for x in T.subterms(coll)):
                    ok_rm = True
    ctx.check(ok and ok_rm, "PAIR", f"{gm.qualname} / PAIR / edges rebuilt between consecutive kept ids; removed vertices = ids in no kept interface", ctx.where(gm),
              "edges[k] = SmallEdge(k, vertices[be[n]], vertices[be[n+1]]) for be in nEdgeArray; vertexToRemove = ids not in chain(nEdgeArray)",
              f"rebuild joins consecutive kept ids: {ok}; removal set is the complement of the kept ids: {ok_rm}")

    # ================================================================== skeleton parser: every cyclically consecutive pair of a contour gets its edge
    ctx.clause("consecutive vertices of every cell cycle are joined by a mesh edge (skeleton contours, the closing pair included)")
    skl = repo.func("forsys.skeleton.Skeleton.create_lattice")
    ctx.touch(skl)
    ssk = sym.summarize(repo, skl.qualname)
    ce = [e for e in ssk.events if e.kind == "call" and e.target == "forsys.skeleton.Skeleton.create_edge" and len(e.args) == 3]
    if not ce:
        raise AnalysisError("Skeleton.create_lattice no longer calls create_edge - re-bind the anchor")
    step, closing, full, other = False, False, False, []
    for e in ce:
        poly = e.args[2]
        N = T.call("len", (poly,))
        lp = e.loops()
        inner = lp[-1] if lp and any(x == ("bv", lp[-1][1]) for a in e.args[:2] for x in T.subterms(a)) else None
        if inner is not None:
            k = ("bv", inner[1])
            rng = inner[2]
            a0, a1 = e.args[0], e.args[1]
            if rng == T.call("range", (T.sub(N, T.num(1)),)) and (a0, a1) == (k, T.add(k, T.num(1))) and not _inner_conds(e, inner):
                step = True
            elif rng == T.call("range", (N,)) and not _inner_conds(e, inner) and \
                    ((a0, a1) == (k, T.call("mod", (T.add(k, T.num(1)), N))) or (a0, a1) == (T.sub(k, T.num(1)), k)):
                full = True
            elif rng == T.call("range", (T.sub(N, T.num(1)),)) and a0 == k and a1 == T.call("mod", (T.add(k, T.num(1)), N)) and not _inner_conds(e, inner):
                step = True      # (k+1) % N == k+1 for k < N-1: the pairs (k, k+1) only, the wrap-around never happens in this range
            else:
                other.append(f"{T.show(T.alpha(a0))}, {T.show(T.alpha(a1))} over {T.show(T.alpha(rng))[:60]}")
        else:
            a0, a1 = e.args[0], e.args[1]
            leaked = [x for x in T.subterms(a0) if x[0] == "bv"]
            last_ok = a0 in (T.sub(N, T.num(1)), T.num(-1)) or (leaked and a0 == T.add(leaked[0], T.num(1)))
            first_ok = a1 == T.ZERO
            if (last_ok and first_ok) or (a1 in (T.sub(N, T.num(1)), T.num(-1)) and a0 == T.ZERO):
                closing = True
            else:
                other.append(f"{T.show(T.alpha(a0))}, {T.show(T.alpha(a1))} (outside the pair loop)")
    covered = full or (step and closing)
    if not covered and not (step or full) and other:
        raise AnalysisError(f"Skeleton.create_lattice: edge creation over a contour not understood: {other[:2]}")
    ctx.check(covered, "PAIR", f"{skl.qualname} / PAIR / an edge for every consecutive pair of the contour and for (last, first)", ctx.where(skl, ce[0].node),
              "create_edge(k, k+1) for k < len-1, and create_edge(last, 0)",
              f"the contour's pairs (k, k+1) are joined but the closing pair (last, first) never is: a cell whose first pixel pair is not re-created by a neighbour "
              f"has two consecutive vertices without a mesh edge" if step and not closing else f"edge creation covers {'the closing pair only' if closing else other[:2]}")

    # ================================================================== ITER
    ctx.clause("deletion loops see every element: no loop iterates a live back-reference list while its body removes from it")
    n_loops = 0
    for q, fq in sorted(repo.functions.items()):
        for n in repo.own_nodes(fq):
            its = []
            if isinstance(n, (ast.For,)):
                its.append(n.iter)
            elif isinstance(n, (ast.ListComp, ast.SetComp, ast.GeneratorExp, ast.DictComp)):
                its.extend(g.iter for g in n.generators)
            for it in its:
                src = it
                if isinstance(src, ast.Call) and isinstance(src.func, ast.Attribute) and src.func.attr == "copy":
                    src = src.func.value
                if isinstance(src, ast.Attribute) and src.attr in BACK:
                    n_loops += 1
    ctx.count("ITER", "loops / comprehensions over back-reference lists", n_loops, 18)
    REMOVERS = {"ownEdges": ("edges",), "ownCells": ("cells",)}
    n_checked = 0
    for q, fq in sorted(repo.functions.items()):
        if fq.module.name == "forsys.plot":
            continue
        s = sym.summarize(repo, q)
        for e in s.events:
            live = [g for g in e.loops() if _back_ref(g[2]) is not None]
            if not live:
                continue
            n_checked += 1
            for g in live:
                attr, owner = _back_ref(g[2])
                hit = None
                if e.kind == "del" and (e.attr or "").lstrip("$") in REMOVERS.get(attr, ()):
                    hit = f"`del {(e.attr or '').lstrip('$')}[...]` runs the destructor, which removes from the iterated {attr}"
                if e.kind == "call" and isinstance(e.fname, tuple) and e.fname[1] in ("clear", "pop", "popitem") and e.recv is not None:
                    nm = e.recv[2] if e.recv[0] == "attr" else e.recv[1] if e.recv[0] == "sym" else None
                    if nm in REMOVERS.get(attr, ()):
                        hit = f"`{nm}.{e.fname[1]}()` runs destructors that remove from the iterated {attr}"
                if e.kind == "call" and isinstance(e.fname, tuple) and e.fname[1] == "remove" and e.recv == g[2]:
                    hit = f"removes from the iterated {attr} directly"
                if e.kind == "call" and e.target in (f"{VERTEX}.remove_edge", f"{VERTEX}.remove_cell", f"{VERTEX}.remove_big_edge") and e.recv == owner:
                    hit = f"{e.target.split('.')[-1]} on the vertex whose {attr} is iterated"
                if e.kind == "call" and e.target == f"{SE}.replace_vertex" and attr == "ownEdges" and e.args and e.args[0] == owner:
                    hit = "SmallEdge.replace_vertex(old=iterated vertex) removes the edge from the iterated ownEdges"
                if e.kind == "call" and e.target and hit is None and e.target not in (f"{SE}.replace_vertex", f"{CELL}.replace_vertex"):
                    eff = repo.transitive_attr_effects(e.target, kinds=("del_elem", "del_attr"))
                    for nm in REMOVERS.get(attr, ()):
                        if nm in eff or "$" + nm in eff:
                            hit = f"callee {e.target} deletes from `{nm}` (destructor removes from the iterated {attr})"
                if hit:
                    enc = [x for x in e.loops() if x is not g]
                    shape = "vertex of a cell's cycle" if (owner[0] == "bv" and any(x[2][0] == "attr" and x[2][2] == "vertices" for x in enc)) \
                        else "vertex looked up in the vertex dictionary" if any(y[0] == "idx" for y in T.subterms(owner)) else "vertex"
                    key = f"{q} / ITER / loop over live {attr} of a {shape} while deleting from it"
                    if key in ITER_EXCEPTIONS:
                        ctx.ok("ITER", key, ctx.where(fq, e.node), "named exception: " + ITER_EXCEPTIONS[key])
                    else:
                        ctx.violation("ITER", key, ctx.where(fq, e.node), f"`{fq.module.line(e.node.lineno)}` inside a loop over the live list: {hit}; elements are skipped")
    ctx.ok("ITER", "package / ITER / effects inside live back-reference loops scanned", "forsys/*", f"{n_checked} events inside live loops examined")


_E, _C, _V, _S, _SE, _F, _W, _X = ("forsys/edge.py", "forsys/cell.py", "forsys/virtual_edges.py", "forsys/skeleton.py",
                                    "forsys/surface_evolver.py", "forsys/forsys.py", "forsys/wkt.py", "forsys/vertex.py")
PINNED = [
    ("join_two_vertices skips the cells already visited for the first vertex", _V, "    list_of_cells_1 = [cid for cid in v1.ownCells]", "    list_of_cells_1 = [cid for cid in v1.ownCells if cid not in list_of_cells_0]"),
    ("reduce_amount loses the edge-count half of its guard", _W, "                if len(j.ownCells) < 3 and len(j.ownEdges) < 3:", "                if len(j.ownCells) < 3:"),
    ("join_two_vertices re-points the second vertex's edges away from the first vertex", _V, "    for edge_id in list_of_edges_1:\n        edges[edge_id].replace_vertex(vertices[v1.id], new_vertex)", "    for edge_id in list_of_edges_1:\n        edges[edge_id].replace_vertex(vertices[v0.id], new_vertex)"),
    ("destructor no longer unregisters", _E, "            if self.id in v.ownEdges:\n                v.remove_edge(self.id)", "            pass"),
    ("constructor registers only on v1", _E, "        self.verticesArray = [self.v1, self.v2]\n        for v in self.verticesArray:\n            v.add_edge(self.id)",
     "        self.verticesArray = [self.v1, self.v2]\n        for v in self.verticesArray[:1]:\n            v.add_edge(self.id)"),
    ("replace_vertex keeps the old registration", _E, "        self.verticesArray[who].ownEdges.remove(self.id)\n", ""),
    ("replace_vertex does not register the new end", _E, "        self.verticesArray[who] = vnew\n        self.verticesArray[who].add_edge(self.id)", "        self.verticesArray[who] = vnew"),
    ("replace_vertex forgets verticesArray", _E, "        self.verticesArray[who] = vnew\n        self.verticesArray[who].add_edge(self.id)", "        vnew.add_edge(self.id)"),
    ("replace_vertex always rebinds v2", _E, "        if who == 0:\n            self.v1 = vnew\n        else:\n            self.v2 = vnew", "        self.v2 = vnew"),
    ("Cell destructor skips the first vertex", _C, "    def __del__(self):\n        for v in self.vertices:\n            v.remove_cell(self.id)", "    def __del__(self):\n        for v in self.vertices[1:]:\n            v.remove_cell(self.id)"),
    ("Cell.replace_vertex does not register", _C, "            # add cell to vertex\n            vnew.add_cell(self.id)", "            # add cell to vertex"),
    ("Cell.replace_vertex substitutes at the new vertex's position", _C, "self.vertices[vertices_ids.index(vold.id)] = vnew", "self.vertices[vertices_ids.index(vnew.id) if vnew.id in vertices_ids else 0] = vnew"),
    ("add_cell appends duplicates", _X, "        if cid in self.ownCells:\n            return False\n        else:\n            self.ownCells.append(cid)\n            return True", "        self.ownCells.append(cid)\n        return True"),
    ("foreign writer of ownEdges", _V, "    # destroy edge\n    del edges[common_edge]", "    # destroy edge\n    v0.ownEdges.remove(common_edge)\n    del edges[common_edge]"),
    ("foreign writer of ownEdges through a helper that mutates its parameter", _V, "    # destroy edge\n    del edges[common_edge]",
     "    # destroy edge\n    def _drop(owned, eid):\n        owned.remove(eid)\n    _drop(v0.ownEdges, common_edge)\n    del edges[common_edge]"),
    ("F11 reintroduced: triangle clean-up iterates the live list", _S, "its_edges = self.vertices[vertex_id_to_delete].ownEdges.copy()", "its_edges = self.vertices[vertex_id_to_delete].ownEdges"),
    ("SurfaceEvolver orphan removal iterates the live list", _SE, "for e in vertices[i].ownEdges.copy():", "for e in vertices[i].ownEdges:"),
    ("remove_cell iterates the live list", _F, "for ii in vertex.ownEdges.copy():", "for ii in vertex.ownEdges:"),
    ("orphan vertices deleted without their edges", _SE, "            for e in vertices[i].ownEdges.copy():\n                try:\n                    del edges[e] \n                except KeyError:\n                    pass\n", ""),
    ("join_two_vertices keeps the common edge", _V, "    # destroy edge\n    del edges[common_edge]\n", "    # destroy edge\n"),
    ("join_two_vertices stores the new vertex under a wrong key", _V, "    vertices[new_id] = new_vertex\n", "    vertices[new_id + 1] = new_vertex\n"),
    ("generate_mesh rebuilds edges with ids shifted", _V, "edges[edgesNumber] = fedge.SmallEdge(edgesNumber, vertices[be[n]], vertices[be[n + 1]])", "edges[edgesNumber] = fedge.SmallEdge(edgesNumber + 1, vertices[be[n]], vertices[be[n + 1]])"),
    ("generate_mesh joins be[n] with be[n+2]", _V, "edges[edgesNumber] = fedge.SmallEdge(edgesNumber, vertices[be[n]], vertices[be[n + 1]])", "edges[edgesNumber] = fedge.SmallEdge(edgesNumber, vertices[be[n]], vertices[be[min(n + 2, len(be) - 1)]])"),
    ("wkt.reduce_amount deletes the vertex but keeps it in the cells", _W, "                    for c in j.ownCells:\n                        cells[c].vertices.remove(j)\n", ""),
    ("new writer of a cell cycle in frames.py", "forsys/frames.py", "        for _, cell in self.cells.items():\n            cell.calculate_neighbors()", "        for _, cell in self.cells.items():\n            cell.calculate_neighbors()\n            cell.vertices.reverse()"),
]
PRESERVING = [
    ("destructor spelled with a filter", _E, "        for v in self.verticesArray:\n            if self.id in v.ownEdges:\n                v.remove_edge(self.id)",
     "        for v in self.verticesArray:\n            if not self.id in v.ownEdges:\n                continue\n            v.remove_edge(self.id)"),
    ("isolated-cell loop over a copy", _S, "                    for e in v.ownEdges:\n                        del self.edges[e]", "                    for e in list(v.ownEdges):\n                        del self.edges[e]"),
]

"""C12 - vertex tracking between frames is injective and follows small motions (DESIGN.md section 3, C12)."""
import ast
from fractions import Fraction

from .. import terms as T
from .. import sym, rules
from ..model import AnalysisError

EXPLANATION = ("Guard domination: every candidate considered by find_best is outside the targets already taken (the live values view "
               "of the mapping being filled is what both call sites pass), every assignment is guarded by 'not yet mapped' and user "
               "pairings are merged first; pools are the interface end points of the respective frame; the chosen vertex is the "
               "nearest of the same candidate list; search-radius / cut-off / box-change constants of the statement; backward steps "
               "use the inverse of the same step's map; incompatible frames store None under the same key.")

TS = "forsys.time_series.TimeSeries"
SELF = T.sym("self")


def run(ctx):
    repo = ctx.repo
    fb = repo.func(f"{TS}.find_best")
    cm = repo.func(f"{TS}.create_mapping")
    ctx.touch(fb, cm)
    v0p, poolp, foundp = (T.sym(p) for p in fb.params[1:4])
    s = sym.summarize(repo, fb.qualname)

    # ------------------------------------------------------------------ injectivity guard inside find_best
    ctx.clause("never two vertices to one target: every candidate is outside the targets already taken")
    # the candidates are whatever is added to the lists that are merged into the list the answer is picked from
    merged = [e.value for e in s.events if e.kind == "assign" and e.value[0] == "call" and e.value[1] == "numpy.concatenate" and not e.loops()]
    feeds = {x[1] for m in merged for x in T.subterms(m) if x[0] in ("loopres", "lc")}
    apps = [e for e in rules.additions(s) if e.loops() and e.name in feeds]
    if not apps:
        raise AnalysisError("find_best: no candidate is ever appended - re-bind the anchor")
    for e in apps:
        v1 = e.args[0] if e.args else None
        need = T.b_not(("in", T.attr(v1, "id"), foundp)) if v1 is not None else None
        pool_loop = [g for g in e.loops() if g[0] == "loop"]
        from_pool = bool(pool_loop) and any(x == poolp for x in T.subterms(pool_loop[-1][2])) and v1 == ("bv", pool_loop[-1][1])
        ctx.check(need in e.conds() and from_pool, "GUARD", f"{fb.qualname} / GUARD / candidate append dominated by `id not in found` (line of `{fb.module.line(e.node.lineno)[:40]}`)",
                  ctx.where(fb, e.node), "candidate comes from the pool and its id is not among the taken targets",
                  f"a candidate is appended under {[T.show(T.alpha(c))[:80] for c in e.conds()]} - the `v1.id not in found` guard is missing")
        # distance test against the growing radius
        ok_r = False
        for c in e.conds():
            if c[0] == "cmp" and c[1] == "lt":
                d2 = T.add(T.power(T.sub(T.attr(v1, "x"), T.attr(v0p, "x")), Fraction(2)), T.power(T.sub(T.attr(v1, "y"), T.attr(v0p, "y")), Fraction(2)))
                if c[2] == d2 and c[3][0] == "poly" and any(x == T.attr(SELF, "maxcoord") for x in T.subterms(c[3])):
                    ok_r = True
        ctx.check(ok_r, "FORM", f"{fb.qualname} / FORM / candidate iff squared distance < (spread * extent)^2 (line {e.node.lineno - fb.node.lineno})", ctx.where(fb, e.node),
                  "(v1.x-v0.x)^2 + (v1.y-v0.y)^2 < (spread*self.maxcoord)^2", "the candidate test is not squared distance < (spread * extent)^2")
    ctx.count("GUARD", "candidate appends in find_best", len(apps), 2)

    ctx.clause("the chosen vertex is one of the candidates, the nearest one")
    cand = s.env.get("candidates")
    ret = s.ret()
    CAND = None
    for e in s.events:
        if e.kind == "assign" and e.value[0] == "call" and e.value[1] == "numpy.concatenate" and not e.loops():
            CAND = e.value
    if CAND is None:
        raise AnalysisError("find_best: merged candidate list not found - re-bind the anchor")
    b0 = ("bv", 0)
    D = ("map", T.call(f"{TS}.distance", (SELF, v0p, b0)), b0, CAND, T.TRUE)
    D2 = ("map", T.call(f"{TS}.distance", (v0p, b0)), b0, CAND, T.TRUE)
    nearest = [T.idx(CAND, T.call(("m", "index"), (d, T.call("min", (d,))))) for d in (D, D2)]
    nearest += [T.idx(CAND, T.call("numpy.argmin", (d,))) for d in (D, D2)]
    leaves = []

    def collect(t):
        if t[0] == "phi":
            collect(t[2])
            collect(t[3])
        else:
            leaves.append(t)
    collect(ret)
    ok = all(x == T.NONE or x == T.idx(CAND, T.num(0)) or any(T.alpha(x) == T.alpha(n) for n in nearest) for x in leaves) and \
        any(any(T.alpha(x) == T.alpha(n) for n in nearest) for x in leaves)
    ctx.check(ok, "ALIGN", f"{fb.qualname} / ALIGN / best = candidates[index of the minimum distance over the same candidates]", ctx.where(fb),
              "distances computed over the list they index", f"find_best returns one of {[T.show(T.alpha(x))[:80] for x in leaves]}")

    ctx.clause("search radius grows from 0.5% and stops below the 10% cut-off (last radius 8%)")
    wl_all = [g for e in apps for g in e.guard if g[0] == "while"]
    spread_names = {x[1] for g in wl_all for x in T.subterms(g[2]) if x[0] == "lc" and any(
        c[0] == "cmp" and c[1] == "lt" and c[2] == x and c[3] == T.attr(SELF, "cutoff") for c in T.conjuncts(g[2]))}
    if len(spread_names) != 1:
        raise AnalysisError("find_best: the growing search radius (compared with self.cutoff in the loop condition) not found - re-bind the anchor")
    spread_name = next(iter(spread_names))
    sp0 = [e for e in s.events if e.kind == "assign" and e.name == spread_name and not e.loops()]
    dbl = [e for e in s.events if e.kind == "assign" and e.name == spread_name and e.loops()]
    ok = len(sp0) == 1 and sp0[0].value == T.num(Fraction(5, 1000)) and bool(dbl) and all(e.value == T.mul(T.num(2), e.old) for e in dbl)
    wl = [g for e in apps for g in e.guard if g[0] == "while"]
    ok_cut = bool(wl) and all(any(c == T.cmp("Lt", ("lc", spread_name, g[1]), T.attr(SELF, "cutoff")) for c in T.conjuncts(g[2])) for g in wl)
    init = repo.func(f"{TS}.__post_init__")
    ctx.touch(init)
    si = sym.summarize(repo, init.qualname)
    cut = [e for e in si.stores("cutoff") if e.base == SELF]
    ok_c = len(cut) == 1 and cut[0].value == T.num(Fraction(1, 10))
    # constant-folded sequence of radii
    seq = []
    x = Fraction(5, 1000)
    while x < Fraction(1, 10):
        seq.append(x)
        x *= 2
    ctx.check(ok and ok_cut and ok_c and seq[-1] == Fraction(8, 100), "CONST", f"{fb.qualname} / CONST / spread 0.005 doubling while < cutoff 0.1", ctx.where(fb),
              f"radii {[float(v) for v in seq]}", "the search radius no longer starts at 0.5%, doubles, and stops below the 10% cut-off")

    # ------------------------------------------------------------------ create_mapping
    t0, t1, guess = (T.sym(p) for p in cm.params[1:4])
    sc = sym.summarize(repo, cm.qualname, heap={T.attr(SELF, "cm"): T.FALSE})
    ctx.config("cm=False (ForSys default)")
    ctx.clause("honours user pairings: merged first, and no vertex that is already mapped is re-assigned")
    map_names = {e.attr for e in sc.stores() if e.sub and e.value[0] == "attr" and e.value[2] == "id" and e.value[1][0] == "call" and e.value[1][1] == fb.qualname}
    if len(map_names) != 1:
        raise AnalysisError("create_mapping: the dictionary receiving find_best(...).id not found - re-bind the anchor")
    MAP = next(iter(map_names))
    minit = [e for e in sc.events if e.kind == "assign" and "$" + e.name == MAP and not e.loops()]
    ok = bool(minit) and minit[-1].value[0] == "dict" and any(k == ("str", "**") and v == guess for k, v in minit[-1].value[1])
    first_store = min((sc.pos(e) for e in sc.stores(MAP)), default=None)
    ctx.check(ok and first_store is not None and sc.pos(minit[-1]) < first_store, "GUARD", f"{cm.qualname} / GUARD / initial_guess merged into the mapping before the search", ctx.where(cm),
              "mapping = {**mapping, **initial_guess} precedes every assignment", "the user-supplied pairings are not merged into the mapping before the search")
    stores = [e for e in sc.stores(MAP) if e.sub and e.value != T.NONE]
    nones = [e for e in sc.stores(MAP) if e.sub and e.value == T.NONE]
    if len(stores) < 2:
        raise AnalysisError("create_mapping: assignments of the mapping not found - re-bind the anchor")
    pools = {}
    for e in stores:
        where = ctx.where(cm, e.node)
        lp = e.loops()
        if len(lp) != 1:
            raise AnalysisError(f"{where}: mapping assignment outside a single loop")
        v0 = ("bv", lp[0][1])
        cur = e.base
        guard = T.b_not(("in", T.attr(v0, "id"), T.call(("m", "keys"), (cur,))))
        guard2 = T.b_not(("in", T.attr(v0, "id"), cur))
        ok_g = guard in e.conds() or guard2 in e.conds()
        v = e.value
        ok_v = v[0] == "attr" and v[2] == "id" and v[1][0] == "call" and v[1][1] == fb.qualname and e.key == T.attr(v0, "id")
        ok_found = ok_v and v[1][2][1] == v0 and v[1][2][3] == T.call(("m", "values"), (cur,))
        ctx.check(ok_g, "GUARD", f"{cm.qualname} / GUARD / assignment only for vertices not yet mapped (pool {len(pools)})", where,
                  "if v0.id not in mapping.keys()", "a vertex that is already mapped (e.g. by initial_guess) can be re-assigned")
        ctx.check(ok_found, "GUARD", f"{cm.qualname} / GUARD / find_best receives the live values of the mapping being filled (pool {len(pools)})", where,
                  "mapping[v0.id] = find_best(v0, pool1, mapping.values()).id",
                  f"assignment is {T.show(T.alpha(e.key))[:40]} <- {T.show(T.alpha(v))[:200]}; the taken targets handed to find_best are not the values of the mapping being filled")
        if ok_v:
            pools[len(pools)] = (lp[0][2], v[1][2][2])
    for e in nones:
        ex = e.excepts()
        ctx.check(bool(ex) and "AttributeError" in ex[-1][2], "GUARD", f"{cm.qualname} / GUARD / no candidate -> None (line +{e.node.lineno - cm.node.lineno})", ctx.where(cm, e.node),
                  "AttributeError (best is None) handler stores None", "the no-candidate case no longer maps the vertex to None")

    ctx.clause("interface end points are mapped to interface end points of the next frame")

    def ends_pool(frame):
        b, c = ("bv", 0), ("bv", 1)
        ends = ("map", T.seq((T.idx(c, T.num(0)), T.idx(c, T.num(-1)))), c, T.attr(frame, "big_edges_list"), T.TRUE)
        return T.call("dict", (("map", T.seq((T.idx(b, T.num(0)), T.idx(b, T.num(1)))), b, T.call(("m", "items"), (T.attr(frame, "vertices"),)),
                                ("in", T.idx(b, T.num(0)), T.call(("m", "flatten"), (ends,)))),))
    if 0 in pools:
        src, dst = pools[0]
        ok = T.alpha(src) == T.alpha(T.call(("m", "values"), (ends_pool(t0),))) and T.alpha(dst) == T.alpha(ends_pool(t1))
        ctx.check(ok, "FORM", f"{cm.qualname} / FORM / pools = {{E[0], E[-1]}} over big_edges_list of the respective frame", ctx.where(cm),
                  "source pool from t0, target pool from t1", f"pools are {T.show(T.alpha(src))[:160]} -> {T.show(T.alpha(dst))[:160]}")

    ctx.clause("bounding box change limited to 10% of the extent, else the frames are incompatible")
    md = [e for e in sc.events if e.kind == "assign" and e.value == T.num(Fraction(1, 10)) and not e.loops()]
    rs = [e for e in sc.events if e.kind == "raise"]
    ok = False
    for e in rs:
        if e.exc[0] == "call" and "DifferentTissueException" in str(e.exc[1]):
            for c in e.conds():
                for x in T.subterms(c):
                    if x[0] == "cmp" and x[1] == "lt" and x[2][0] == "poly" and any(m for m, co in x[2][1] if co == Fraction(1, 10)) \
                            and any(y[0] == "call" and y[1] == "max" for y in T.subterms(x[2])):
                        ok = True
    ctx.check(ok, "CONST", f"{cm.qualname} / CONST / DifferentTissueException when the box change exceeds 0.10 * extent", ctx.where(cm),
              "displacement > 0.10 * maxcoord raises", "the 10% bounding-box test no longer raises DifferentTissueException")

    # ------------------------------------------------------------------ composition / inverse
    gp = repo.func(f"{TS}.get_point_id_by_map")
    ctx.touch(gp)
    sg = sym.summarize(repo, gp.qualname)
    ctx.clause("following the correspondence forward and then backward returns the start: backward steps invert the same step's map")
    pt, ti, tf = (T.sym(p) for p in gp.params[1:4])
    fwd = T.cmp("Lt", ti, tf)
    tr = [e for e in sg.events if e.kind == "assign" and not e.loops() and any(x[0] == "call" and x[1] == "numpy.arange" for x in T.subterms(e.value))]
    want_f = T.call("numpy.arange", (ti, tf, T.num(1)))
    want_b = T.idx(T.call("numpy.arange", (tf, ti, T.num(1))), ("slice", T.NONE, T.NONE, T.num(-1)))
    def descending(t):
        """(lo, hi) when t visits hi-1, hi-2, ..., lo: the spellings of 'arange(lo, hi, 1) reversed' (slice, reversed(), negative step)"""
        if t[0] == "idx" and t[2] == ("slice", T.NONE, T.NONE, T.num(-1)):
            t = ("call", "reversed", (t[1],))
        if t[0] == "call" and t[1] == "reversed" and len(t[2]) == 1:
            r = t[2][0]
            if r[0] == "call" and r[1] in ("numpy.arange", "range") and len(r[2]) in (2, 3) and (len(r[2]) == 2 or r[2][2] == T.num(1)):
                return r[2][0], r[2][1]
        if t[0] == "call" and t[1] in ("numpy.arange", "range") and len(t[2]) == 3 and t[2][2] == T.num(-1):
            return T.add(t[2][1], T.num(1)), T.add(t[2][0], T.num(1))
        return None
    got = {(tuple(e.conds()), e.value) for e in tr}
    okr = len(got) == 2 and ((fwd,), want_f) in got and any(c == (T.b_not(fwd),) and descending(v) == (tf, ti) for c, v in got)
    tm = [e for e in sg.events if e.kind == "assign" and e.loops() and e.value[0] in ("idx", "call") and e.name != gp.params[1]]
    okm = False
    for e in tm:
        ii = ("bv", e.loops()[-1][1])
        step = T.idx(T.attr(SELF, "mapping"), ii)
        b = ("bv", 0)
        inv = T.call("dict", (("map", T.seq((T.idx(b, T.num(1)), T.idx(b, T.num(0)))), b, T.call(("m", "items"), (step,)), T.TRUE),))
        if e.conds() == [T.b_not(fwd)]:
            okm = T.alpha(e.value) == T.alpha(inv)
    upd = [e for e in sg.events if e.kind == "assign" and e.name == gp.params[1] and e.loops()]
    oku = len(upd) == 1 and upd[0].value[0] == "idx" and upd[0].value[2] == ("lc", gp.params[1], upd[0].loops()[-1][1])
    ctx.check(okr and okm and oku, "FORM", f"{gp.qualname} / FORM / backward = reversed range, each step through the inverse of mapping[ii] of that ii", ctx.where(gp),
              "forward: mapping[ii]; backward: {v: k for k, v in mapping[ii].items()} over arange(final, initial)[::-1]",
              f"step list ok={okr}, inverse of the same step ok={okm}, point threaded ok={oku}")

    # positive rule (seed C12-r7-1): whatever the shape of the rest, a step that goes through the INVERSE of mapping[ii] belongs to the
    # backward walk (final < initial), which has to visit the steps newest-first; an iterable that is an ascending arange/range in the
    # backward case applies inverse(mapping[0]) before inverse(mapping[1]) - wrong as soon as the walk spans two frames
    def backward_case(t):
        while t[0] == "phi":
            if t[1] == fwd:
                t = t[3]
            elif t[1] == T.b_not(fwd):
                t = t[2]
            else:
                return None
        return t
    for e in tm:
        if e.conds() != [T.b_not(fwd)]:
            continue
        it = backward_case(e.loops()[-1][2])
        if it is None or it[0] != "call" or it[1] not in ("numpy.arange", "range"):
            continue
        args = it[2]
        step = args[2] if len(args) > 2 else T.num(1)
        if step[0] == "num" and step[1] > 0:
            ctx.violation("FORM", f"{gp.qualname} / FORM / the backward walk visits its steps newest-first", ctx.where(gp, e.node),
                          f"under `{T.show(T.b_not(fwd))}` the loop runs over `{T.show(it)[:120]}`, an ascending range, and goes through the inverse of "
                          "mapping[ii]: a backward lookup over two or more frames applies the oldest inverse map first and ends at the wrong vertex")

    # the walk may only stop on "no vertex" (None): vertex ids are arbitrary integers and 0 is one of them, so a truthiness test of the
    # current id ends the walk at vertex 0
    pname = gp.params[1]
    for e in [x for x in sg.events if x.kind in ("break", "return") and x.loops()]:
        for c in e.conds():
            for lit in (c[1] if c[0] in ("or", "and") else (c,)):
                bare = lit[1] if lit[0] == "not" else lit
                if bare[0] == "lc" and bare[1] == pname or bare == T.sym(pname):
                    ctx.violation("GUARD", f"{gp.qualname} / GUARD / the walk stops on a missing vertex (None), not on a falsy id", ctx.where(gp, e.node),
                                  f"`{gp.module.line(e.node.lineno - 1)[:70].strip()}` tests the truth value of the current vertex id: the walk stops at the vertex whose id is 0 "
                                  f"and reports 0 instead of its successor")
    # centre-of-mass shift (cm=True): x is shifted by component 0 and y by component 1 of the SAME frame's centre
    cmst = [e for e in sym.summarize(repo, cm.qualname).stores() if e.attr in ("x", "y") and not e.sub and e.aug and e.loops()]
    by_loop = {}
    for e in cmst:
        d = T.sub(T.attr(e.base, e.attr), e.value)
        by_loop.setdefault(e.loops()[-1][1], {})[e.attr] = (d, e)
    for L_, pair in by_loop.items():
        if set(pair) != {"x", "y"}:
            continue
        (dx, ex), (dy, ey) = pair["x"], pair["y"]
        if dx[0] == "idx" and dy[0] == "idx" and dx[2][0] == "num" and dy[2][0] == "num":
            ctx.check(dx[1] == dy[1] and dx[2] == T.num(0) and dy[2] == T.num(1), "SIB",
                      f"{cm.qualname} / SIB / centre-of-mass shift: x by component 0, y by component 1 of the same centre (loop at line +{ex.node.lineno - cm.node.lineno})",
                      ctx.where(cm, ey.node), "v.x -= c[0]; v.y -= c[1]",
                      f"the shift subtracts component {T.show(dx[2])} from x and component {T.show(dy[2])} from y"
                      f"{'' if dx[1] == dy[1] else ' of different centres'}: with cm=True the frame is displaced and every pairing of it is wrong")

    # ------------------------------------------------------------------ incompatible frames
    ctx.clause("incompatible frames give None under the same key")
    trs = [e for e in si.stores("mapping") if e.sub]
    good = [e for e in trs if e.value != T.NONE]
    none = [e for e in trs if e.value == T.NONE]
    ok = len(good) == 1 and len(none) == 1 and good[0].key == none[0].key and none[0].excepts() and "DifferentTissueException" in none[0].excepts()[-1][2]
    if ok:
        k = good[0].key
        v = good[0].value
        series = T.attr(SELF, "time_series")
        lp = good[0].loops()
        ro = rules.roles(lp[-1]) if lp else None
        # the step's own frame: series[k], spelled through the loop that enumerates the series
        own = {T.idx(series, k)}
        if ro is not None and ro.base == series and ro.kind == "items" and k == ro.key:
            own.add(ro.val)
        ok = v[0] == "call" and v[1] == cm.qualname and v[2][1] in own and v[2][2] == T.idx(series, T.add(k, T.num(1)))
        g3 = v[2][3] if ok and len(v[2]) > 3 else None
        okg = g3 is not None and g3[0] == "idx" and g3[2] == k and any(x == T.attr(SELF, "initial_guess") for x in T.subterms(g3[1]))
        ctx.check(okg, "ALIGN", f"{init.qualname} / ALIGN / step k receives the user pairings of step k", ctx.where(init),
                  "create_mapping(..., self.initial_guess[k])", "the user-supplied pairings handed to step k are not initial_guess[k]")
        fsi = repo.func("forsys.forsys.ForSys.__post_init__")
        ctx.touch(fsi)
        sfs = sym.summarize(repo, fsi.qualname)
        mk = [e for e in sfs.stores("mesh") if e.value[0] == "call" and e.value[1] == "new:" + TS]
        okm = len(mk) == 1 and dict(mk[0].value[3]).get("initial_guess") == T.attr(SELF, "initial_guess") and mk[0].value[2][:1] == (T.attr(SELF, "frames"),) \
            and dict(mk[0].value[3]).get("cm") == T.attr(SELF, "cm")
        ctx.check(okm, "ALIGN", f"{fsi.qualname} / ALIGN / ForSys hands frames, cm and initial_guess to the TimeSeries", ctx.where(fsi),
                  "TimeSeries(self.frames, cm=self.cm, initial_guess=self.initial_guess)", "ForSys does not forward its initial_guess / cm / frames to the TimeSeries")
    ctx.check(ok, "GUARD", f"{init.qualname} / GUARD / mapping[k] = create_mapping(series[k], series[k+1]) or None on DifferentTissueException", ctx.where(init),
              "same key in the try and in the handler", "the per-step mapping is not create_mapping(series[k], series[k+1]) with None stored under the same key for incompatible frames")

    # ------------------------------------------------------------------ the extent every radius and tolerance is a fraction of
    ctx.clause("the search radius and the bounding-box tolerance are fractions of the tissue extent: the larger of the x-range and the y-range of the tracked junctions")
    cmf = repo.func("forsys.time_series.TimeSeries.create_mapping")
    scm = sym.summarize(repo, cmf.qualname)
    ext = [e for e in scm.stores("maxcoord") if e.base == T.sym("self")]
    if not ext:
        raise AnalysisError("create_mapping: store of self.maxcoord not found - re-bind the anchor")
    for e in ext:
        v = e.value
        ok = False
        detail = T.show(T.alpha(v))[:160]
        if v[0] == "call" and v[1] == "max" and len(v[2]) == 2:
            def swap_xy(t):
                return T.substitute(t, {x: T.attr(x[1], "y") for x in T.subterms(t) if x[0] == "attr" and x[2] == "x"})
            a, b = v[2]
            has_x = any(x[0] == "attr" and x[2] == "x" for x in T.subterms(a)) and not any(x[0] == "attr" and x[2] == "y" for x in T.subterms(a))
            ok = has_x and T.alpha(swap_xy(a)) == T.alpha(b) and a[0] == "poly"
            if not ok:
                a, b = b, a
                has_x = any(x[0] == "attr" and x[2] == "x" for x in T.subterms(a)) and not any(x[0] == "attr" and x[2] == "y" for x in T.subterms(a))
                ok = has_x and T.alpha(swap_xy(a)) == T.alpha(b) and a[0] == "poly"
        ctx.check(ok, "SIB", f"{cmf.qualname} / SIB / extent = max(x-range, y-range): the y-range is the x-range with y for x", ctx.where(cmf, e.node),
                  "max(maxx - minx, maxy - miny) over the same junctions", f"the extent is {detail}: its two ranges are not the x- and y-twin of one expression "
                  "(a range mixing a y-maximum with an x-minimum shrinks or inflates every search radius of a tissue that is not square)")



_P = "forsys/time_series.py"
PINNED = [
    ("extent mixes the y-maximum with the x-minimum", "forsys/time_series.py", "self.maxcoord = max(maxx - minx, maxy - miny)", "self.maxcoord = max(maxx - minx, maxy - minx)"),
    ("every step gets the pairings of step 0", _P, "self.mapping[key] = self.create_mapping(t0, t1, self.initial_guess[key])", "self.mapping[key] = self.create_mapping(t0, t1, self.initial_guess[0])"),
    ("ForSys drops the user pairings", "forsys/forsys.py", "            self.mesh = ts.TimeSeries(self.frames, cm=self.cm, \n                                        initial_guess=self.initial_guess)", "            self.mesh = ts.TimeSeries(self.frames, cm=self.cm)"),
    ("injectivity guard dropped in the obverse search", _P, "            for v1 in pool.values():\n                # make the map inyective\n                if v1.id not in found:\n                    xcoord = (v1.x - v0.x)**2\n                    ycoord = (v1.y - v0.y)**2\n                    if xcoord + ycoord < maxspread**2:\n                        candidatesObverse.append(v1)",
     "            for v1 in pool.values():\n                if True:\n                    xcoord = (v1.x - v0.x)**2\n                    ycoord = (v1.y - v0.y)**2\n                    if xcoord + ycoord < maxspread**2:\n                        candidatesObverse.append(v1)"),
    ("injectivity guard dropped in the inverse search", _P, "            for v1 in reversed(pool.values()):\n                # make the map inyective\n                if v1.id not in found:", "            for v1 in reversed(pool.values()):\n                if True:"),
    ("taken targets frozen before the loop", _P, "        # find mapping between real vertices\n        for v0 in rvertices0.values():\n            if v0.id not in mapping.keys():\n                try:\n                    mapping[v0.id] = self.find_best(v0, rvertices1, mapping.values()).id",
     "        # find mapping between real vertices\n        taken = list(mapping.values())\n        for v0 in rvertices0.values():\n            if v0.id not in mapping.keys():\n                try:\n                    mapping[v0.id] = self.find_best(v0, rvertices1, taken).id"),
    ("user pairings overwritten", _P, "        for v0 in rvertices0.values():\n            if v0.id not in mapping.keys():\n                try:\n                    mapping[v0.id] = self.find_best(v0, rvertices1, mapping.values()).id\n                except AttributeError:\n                    mapping[v0.id] = None",
     "        for v0 in rvertices0.values():\n            if True:\n                try:\n                    mapping[v0.id] = self.find_best(v0, rvertices1, mapping.values()).id\n                except AttributeError:\n                    mapping[v0.id] = None"),
    ("initial guess merged after the search", _P, "        mapping = {**mapping, **initial_guess}\n", "        mapping = {**mapping}\n"),
    ("farthest candidate", _P, "best = candidates[distances.index(min(distances))]", "best = candidates[distances.index(max(distances))]"),
    ("backward walk over an ascending range (seed C12-r7-1)", _P,
     "            timerange = np.arange(final_time, initial_time, 1)[::-1]\n", "            timerange = np.arange(final_time, initial_time, 1)\n"),
    ("backward walk: direction hoisted, range from sorted() (seed C12-r7-1, as written)", _P,
     "        if initial_time < final_time:\n            timerange = np.arange(initial_time, final_time, 1)\n        else:\n            timerange = np.arange(final_time, initial_time, 1)[::-1]\n        \n        for ii in timerange:\n            if initial_time < final_time:\n",
     "        forward = initial_time < final_time\n        first, last = sorted((initial_time, final_time))\n        \n        for ii in np.arange(first, last, 1):\n            if forward:\n"),
    ("distances over a different list", _P, "distances = [self.distance(v0, vc) for vc in candidates]", "distances = [self.distance(v0, vc) for vc in candidatesObverse]"),
    ("search starts at 5%", _P, "        spread = 0.005\n", "        spread = 0.05\n"),
    ("cut-off 0.5", _P, "        self.cutoff = 0.1\n", "        self.cutoff = 0.5\n"),
    ("target pool from frame t0", _P, "rvertices1 = {key: value for key, value in t1.vertices.items() if key in realVertices1_ids.flatten()}", "rvertices1 = {key: value for key, value in t1.vertices.items() if key in realVertices0_ids.flatten()}"),
    ("pool of second points instead of end points", _P, "realVertices1_ids = np.array([[x[0]]+[x[-1]] for x in t1.big_edges_list])", "realVertices1_ids = np.array([[x[0]]+[x[1]] for x in t1.big_edges_list])"),
    ("backward step uses the forward map", _P, "                tempMapping = {v: k for k, v in self.mapping[ii].items()}", "                tempMapping = self.mapping[ii]"),
    ("backward range not reversed", _P, "timerange = np.arange(final_time, initial_time, 1)[::-1]", "timerange = np.arange(final_time, initial_time, 1)"),
    ("incompatible frames leave no entry", _P, '                print("Tissues between ", key, " and ", key+1, " too different, skipping...")\n                self.mapping[key] = None', '                print("Tissues between ", key, " and ", key+1, " too different, skipping...")'),
    ("box test at 50%", _P, "            maxDifference = 0.10\n", "            maxDifference = 0.50\n"),
    ("y distance ignored", _P, "                    xcoord = (v1.x - v0.x)**2\n                    ycoord = (v1.y - v0.y)**2\n                    if xcoord + ycoord < maxspread**2:\n                        candidatesObverse.append(v1)",
     "                    xcoord = (v1.x - v0.x)**2\n                    ycoord = 0\n                    if xcoord + ycoord < maxspread**2:\n                        candidatesObverse.append(v1)"),
]
PRESERVING = [
    ("direction test hoisted, reversed range kept", _P,
     "        for ii in timerange:\n            if initial_time < final_time:\n", "        forward = initial_time < final_time\n        for ii in timerange:\n            if forward:\n"),
    ("backward range spelled with a negative step", _P,
     "            timerange = np.arange(final_time, initial_time, 1)[::-1]\n", "            timerange = np.arange(initial_time - 1, final_time - 1, -1)\n"),
    ("keys() dropped in the guard", _P, "        for v0 in rvertices0.values():\n            if v0.id not in mapping.keys():", "        for v0 in rvertices0.values():\n            if v0.id not in mapping:"),
    ("doubling spelled as multiplication", _P, "            spread += spread\n        while len(candidatesInverse)", "            spread = 2 * spread\n        while len(candidatesInverse)"),
]

"""E3 - structural rule library (helpers shared by the property modules)."""
import ast
from fractions import Fraction

from . import terms as T
from . import sym
from .model import AnalysisError, Func, unparse

OPAQUE = {"lc", "loopres", "undef", "last"}


def opaque_parts(t):
    """engine-opaque sub-terms: their presence means the evaluator could not normalise the
    value, so an inequality of normal forms proves nothing"""
    return [x for x in T.subterms(t) if x[0] in OPAQUE or (x[0] == "call" and isinstance(x[1], tuple) and x[1][0] == "dyn")]


def decide_equal(ctx, rule, key, where, code, spec, what=""):
    """normal-form identity.  Equal -> discharged.  Different and fully normalised -> VIOLATION.
    Different but the code value contains engine-opaque parts -> ANALYSIS-ERROR (cannot decide)."""
    code_a, spec_a = T.alpha(code), T.alpha(spec)
    if code_a == spec_a:
        ctx.ok(rule, key, where, f"{what} == {T.show(spec_a)[:300]}")
        return True
    # second chance: a call of a small pure function of the package and its body are the same value (a helper inlined at one call
    # site, or a new helper wrapped around a sub-expression): unfold such calls on both sides and compare again
    cu, su = T.alpha(unfold(ctx.repo, code)), T.alpha(unfold(ctx.repo, spec))
    if cu == su:
        ctx.ok(rule, key, where, f"{what} == {T.show(spec_a)[:300]} (after unfolding pure helpers)")
        return True
    op = opaque_parts(code)
    if op:
        raise AnalysisError(f"{where}: [{rule}] {key}: value not normalisable ({T.show(op[0])[:120]}) - re-bind the anchor")
    # Inequality of normal forms is inequality of functions only inside the interpreted fragment (polynomials, booleans, the
    # normalised containers); uninterpreted applications compare syntactically.  So a difference is REPORTED only when the code value
    # is written in the vocabulary of the statement's formula (same function symbols, attributes and constructors - a wrong index,
    # operand, constant or a dropped term); a value that brings symbols of its own (another library call, a closure, a keyword the
    # formula does not have) may well be the same function spelled differently: that is 'cannot decide', not a violation.
    extra = vocabulary(cu) - vocabulary(su) - vocabulary(spec_a)
    foreign = sorted(x for x in extra if _is_spelling_symbol(ctx.repo, x))
    if foreign and len(foreign) == len(extra):
        ctx.undecided(rule, key, where, f"value uses library symbols the statement's formula does not have ({', '.join(foreign)[:160]}); it may be the same function "
                                        f"spelled differently - cannot decide, re-bind the anchor")
        return False
    ctx.violation(rule, key, where, f"{what} is {T.show(code_a)[:400]}  but the statement requires {T.show(spec_a)[:400]}", soft=True)
    return False


# library symbols that build, convert, join, reshape or traverse containers, or respell arithmetic / reductions: a value that differs from
# the formula only by bringing some of these may be the same function written differently.  Everything else (abs, round, sign, sort,
# isclose, ceil, clip, a method of a domain object ...) changes values and stays a reportable difference.
SPELLING_CALLS = {
    "numpy.array", "numpy.asarray", "numpy.asanyarray", "numpy.concatenate", "numpy.hstack", "numpy.vstack", "numpy.column_stack", "numpy.row_stack",
    "numpy.stack", "numpy.block", "numpy.append", "numpy.reshape", "numpy.ravel", "numpy.squeeze", "numpy.atleast_1d", "numpy.atleast_2d", "numpy.transpose",
    "numpy.ones", "numpy.zeros", "numpy.full", "numpy.empty", "numpy.ones_like", "numpy.zeros_like", "numpy.copy", "numpy.fromiter", "numpy.r_", "numpy.c_",
    "numpy.sum", "numpy.mean", "numpy.average", "numpy.dot", "numpy.matmul", "numpy.einsum", "numpy.inner", "numpy.outer", "numpy.linalg.norm",
    "numpy.subtract", "numpy.add", "numpy.multiply", "numpy.divide", "numpy.true_divide", "numpy.square", "numpy.power", "numpy.hypot", "numpy.sqrt",
    "numpy.any", "numpy.all", "numpy.where", "numpy.count_nonzero", "numpy.arange", "numpy.take", "numpy.meshgrid", "numpy.diff",
    "list", "tuple", "dict", "set", "frozenset", "zip", "enumerate", "map", "filter", "range", "len", "sum", "max", "min", "any", "all", "iter", "next",
    "reversed", "itertools.chain", "itertools.chain.from_iterable", "itertools.product", "itertools.combinations", "itertools.islice", "itertools.pairwise",
    "operator.add", "operator.sub", "operator.mul", "operator.truediv", "operator.itemgetter", "operator.attrgetter", "functools.reduce", "math.sqrt", "math.hypot",
    "math.fsum", "statistics.mean", "mean", "transpose", "matmul", "mod", "floordiv", "bitand", "bitor", "astype", "unpack_rest",
}
SPELLING_METHODS = {"items", "keys", "values", "get", "copy", "tolist", "astype", "reshape", "flatten", "ravel", "squeeze", "sum", "mean", "dot", "transpose",
                    "index", "count", "extend", "append", "update", "setdefault", "union", "intersection", "any", "all", "max", "min", "join", "split", "format",
                    "iterrows", "itertuples", "to_numpy", "isin"}


def _is_spelling_symbol(repo, sym_):
    if sym_.startswith("kw:"):
        return sym_[3:] in ("axis", "default", "dtype", "out", "keepdims", "key", "start", "repeat", "r", "shape", "ndmin", "copy", "order", "strict")
    if sym_.startswith("call:m."):
        return sym_[7:] in SPELLING_METHODS
    if sym_.startswith("call:"):
        return sym_[5:] in SPELLING_CALLS
    return False


def vocabulary(t):
    """function symbols, method names, attribute names and keyword names of a term (constants, variables and structure excluded)"""
    out = set()
    for x in T.subterms(t):
        if x[0] == "call":
            out.add("call:" + (x[1] if isinstance(x[1], str) else ".".join(map(str, x[1]))))
            for k, _ in (x[3] or ()):
                out.add("kw:" + str(k))
        elif x[0] == "attr":
            out.add("attr:" + str(x[2]))
        elif x[0] in ("mod", "fn", "cls", "lambda"):
            out.add(x[0] + ":" + str(x[1]) if x[0] != "lambda" else "lambda")
    return out


_pure_cache = {}


def pure_body(repo, qualname):
    """(params, value term) of a package function that only computes and returns a value (no stores, deletions, raises, yields,
    mutator calls; return value fully normalised) - None otherwise"""
    key = (id(repo), qualname)
    if key in _pure_cache:
        return _pure_cache[key]
    out = None
    f = repo.functions.get(qualname)
    if f is not None and f.parent is None:
        try:
            sm = sym.summarize(repo, qualname)
            params = set(f.params)

            def local_recv(e):
                n = e.node.func.value if isinstance(e.node, ast.Call) and isinstance(e.node.func, ast.Attribute) else None
                return isinstance(n, ast.Name) and n.id not in params
            bad = [e for e in sm.events if e.kind in ("del", "raise", "yield", "assert") or
                   (e.kind == "store" and not (isinstance(e.attr, str) and e.attr.startswith("$"))) or
                   (e.kind == "call" and isinstance(e.fname, tuple) and e.fname[0] == "m" and e.fname[1] in sym.MUTATORS and not local_recv(e))]
            r = sm.ret()
            if not bad and sm.returns and not opaque_parts(r) and not f.node.args.vararg and not f.node.args.kwarg:
                out = (list(f.params), r, f)
        except AnalysisError:
            out = None
    _pure_cache[key] = out
    return out


def unfold(repo, t, depth=6):
    """replace calls of pure package functions by their bodies (bounded depth)"""
    if depth == 0:
        return t

    def f(x):
        if x[0] == "call" and isinstance(x[1], str) and x[1] in repo.functions:
            pb = pure_body(repo, x[1])
            if pb is None:
                return None
            params, body, fn = pb
            args = list(x[2])
            if fn.cls is not None and fn.is_static and len(args) == len(params) + 1:
                args = args[1:]
            kw = dict(x[3]) if x[3] else {}
            bind = {}
            for i, p_ in enumerate(params):
                if i < len(args):
                    bind[T.sym(p_)] = args[i]
                elif p_ in kw:
                    bind[T.sym(p_)] = kw[p_]
                else:
                    return None          # a defaulted parameter: leave the call alone
            if len(args) > len(params) or any(k not in params for k in kw):
                return None
            return unfold(repo, T.substitute(body, bind), depth - 1)
        return None
    return T.transform(t, f)


def guard_implies(event, cond):
    """guard stack of the event |= cond (conjunct inclusion on canonical formulas)"""
    have = set(event.conds())
    return all(c in have for c in T.conjuncts(cond))


# ------------------------------------------------------------------ WHO
def who(ctx, attr, allowed, kinds=("rebind", "elem", "mut", "del_elem", "del_attr"), minimum=1, rule="WHO", recv_filter=None,
        label=None, reset_ok=False):
    """attribute `attr` is stored only from the functions in `allowed` {qualname: reason}"""
    repo = ctx.repo
    sites = repo.writers_of(attr, kinds)
    if recv_filter:
        sites = [(f, s) for f, s in sites if recv_filter(f, s)]
    found = 0
    for f, s in sites:
        ctx.touch(f)
        key = f"{f.qualname} / {rule} / {s['kind']} of .{attr}"
        if reset_ok and isinstance(s["node"], ast.Assign) and isinstance(s["node"].value, ast.Constant) and s["node"].value.value in (0, 0.0, None) \
                and not isinstance(s["node"].value.value, bool):
            ctx.ok(rule, key, ctx.where(f, s["node"]), "reset to 0 / None (cannot invent a result)")
            continue
        via = private_only_from(repo, f, allowed)
        if f.qualname in allowed:
            found += 1
            ctx.ok(rule, key, ctx.where(f, s["node"]), f"allowed writer: {allowed[f.qualname]}")
        elif via:
            found += 1
            ctx.ok(rule, key, ctx.where(f, s["node"]), f"private helper entered only from the allowed writer(s) {via}")
        else:
            ctx.violation(rule, key, ctx.where(f, s["node"]),
                          f"`{f.module.line(s['node'].lineno)}` writes .{attr} outside the allowed writers {sorted(allowed)}")
    ctx.count(rule, label or attr, found, minimum)
    return sites


def private_only_from(repo, f, allowed, depth=0):
    """f is a private helper (`_name`, not `_build_matrix`-like units the rules name) whose every caller is an allowed function or
    again such a helper: the write it performs belongs to its callers.  -> sorted caller names, or None"""
    if not sym.auto_inline(f) or depth > 3:
        return None
    callers = repo.callers_of(f.qualname)
    if not callers:
        return None
    out = set()
    for c in callers:
        if c in allowed:
            out.add(c)
            continue
        cf = repo.functions.get(c)
        sub = private_only_from(repo, cf, allowed, depth + 1) if cf is not None else None
        if not sub:
            return None
        out.update(sub)
    return sorted(out)


# ------------------------------------------------------------------ AST-level helpers
def const_value(node):
    """numeric literal value of an AST node (handles -x) or None"""
    if isinstance(node, ast.Constant) and isinstance(node.value, (int, float)) and not isinstance(node.value, bool):
        return node.value
    if isinstance(node, ast.UnaryOp) and isinstance(node.op, ast.USub):
        v = const_value(node.operand)
        return -v if v is not None else None
    return None


def find_calls(repo, func, pred):
    return [c for c in repo.calls_in(func) if pred(c)]


def call_name(repo, func, call):
    """canonical dotted name of a call target, or '.method'"""
    d = repo.dotted(call.func, func.module)
    if d:
        return d
    if isinstance(call.func, ast.Attribute):
        return "." + call.func.attr
    if isinstance(call.func, ast.Name):
        return call.func.id
    return "<dyn>"


def kwarg(call, name, pos=None):
    for k in call.keywords:
        if k.arg == name:
            return k.value
    if pos is not None and len(call.args) > pos:
        return call.args[pos]
    return None


# ------------------------------------------------------------------ dimension / degree typing over terms (E1 on normal forms)
class Inhomogeneous(Exception):
    pass


class Dim(dict):
    """exponent vector over base units"""

    def __add__(self, o):
        out = Dim(self)
        for k, v in o.items():
            out[k] = out.get(k, Fraction(0)) + v
        return Dim({k: v for k, v in out.items() if v != 0})

    def scale(self, e):
        return Dim({k: v * e for k, v in self.items() if v * e != 0})

    def __str__(self):
        return "1" if not self else "*".join(f"{k}^{v}" if v != 1 else k for k, v in sorted(self.items()))


ZERO_DIM = "ZERO"     # dimension-polymorphic zero


class DimTyper:
    """dimension of a term given seeds on atoms.  seeds(atom_term) -> Dim | None"""

    def __init__(self, seed, calls=None):
        self.seed = seed
        self.calls = calls or {}
        self.bound = {}
        self.loop_init = {}

    def dim(self, t):
        k = t[0]
        s = self.seed(t)
        if s is not None:
            return s
        if k == "num":
            return ZERO_DIM if t[1] == 0 else Dim()
        if k in ("bool", "str", "none"):
            return Dim()
        if k == "poly":
            ds = []
            for m, c in t[1]:
                d = Dim()
                for a, e in m:
                    da = self.dim(a)
                    if da == ZERO_DIM:
                        d = ZERO_DIM
                        break
                    d = d + da.scale(e)
                ds.append(d)
            return self.join(ds, t)
        if k in ("seq", "arr"):
            return self.join([self.dim(x) for x in t[1]], t)
        if k == "phi":
            return self.join([self.dim(t[2]), self.dim(t[3])], t)
        if k == "idx":
            return self.dim(t[1])
        if k in ("map", "sum"):
            # the bound variable ranges over the elements of the iterable
            try:
                d_it = self.dim(t[3])
            except AnalysisError:
                d_it = None
            old = self.bound.get(t[2])
            self.bound[t[2]] = d_it
            try:
                return self.dim(t[1])
            finally:
                self.bound[t[2]] = old
        if k == "lc":
            init = self.loop_init.get((t[1], t[2]))
            if init is None:
                raise AnalysisError(f"dimension typing: loop-carried {T.show(t)} has no known initial value")
            return self.dim(init)       # loop-carried value typed by its initial value (updates must preserve it)
        if k == "bv":
            d = self.bound.get(t)
            if d is None:
                raise AnalysisError(f"dimension typing: bound variable {T.show(t)} ranges over an untyped iterable")
            return d
        if k == "concat":
            return self.join([self.dim(t[1]), self.dim(t[2])], t)
        if k == "upd":
            return self.join([self.dim(t[1]), self.dim(t[3])], t)
        if k == "call":
            fn = t[1]
            h = self.calls.get(fn if isinstance(fn, str) else fn[1] if fn[0] == "m" else None)
            if h is not None:
                return h(self, t)
            raise AnalysisError(f"dimension typing: no transfer rule for call {T.show(t)[:100]}")
        raise AnalysisError(f"dimension typing: unsupported term {T.show(t)[:100]}")

    def join(self, ds, t):
        ds = [d for d in ds if d != ZERO_DIM]
        if not ds:
            return ZERO_DIM
        for d in ds[1:]:
            if d != ds[0]:
                raise Inhomogeneous(f"{T.show(t)[:160]} mixes {ds[0]} and {d}")
        return ds[0]


def preserve(self, t):
    return self.join([self.dim(a) for a in t[2]], t)


def first_arg(self, t):
    return self.dim(t[2][0])


def dimensionless(self, t):
    return Dim()


def product(self, t):
    d = Dim()
    for a in t[2]:
        da = self.dim(a)
        if da == ZERO_DIM:
            return ZERO_DIM
        d = d + da
    return d


BASIC_DIM_CALLS = {
    "abs": first_arg, "float": first_arg, "round": first_arg, "mean": first_arg, "median": first_arg,
    "numpy.sum": first_arg, "sum": first_arg, "numpy.roll": first_arg, "numpy.gradient": first_arg, "numpy.diff": first_arg,
    "numpy.array": first_arg, "list": first_arg, "numpy.mean": first_arg, "max": preserve, "min": preserve,
    "numpy.max": first_arg, "numpy.min": first_arg, "numpy.linalg.norm": first_arg, "astype": first_arg,
    "transpose": first_arg, "numpy.concatenate": first_arg, "copy": first_arg, "flatten": first_arg,
    "numpy.dot": product, "matmul": product,
    "numpy.sign": dimensionless, "int": first_arg, "len": dimensionless, "numpy.count_nonzero": dimensionless,
    "index": dimensionless, "numpy.arccos": dimensionless,
    # element-wise bounds compare their arguments: all of one dimension (a literal floor under a length^3 is not)
    "numpy.maximum": preserve, "numpy.minimum": preserve, "numpy.fmax": preserve, "numpy.fmin": preserve, "numpy.clip": preserve,
}


# ------------------------------------------------------------------ finite-set normal form
def setnf(t):
    """-> (frozenset of generator terms, frozenset of removed element terms) for set-valued expressions
    built from set(), union/concat/app, comprehensions, list()/set() conversions, remove/discard and set difference.
    None when the expression is outside that fragment."""
    k = t[0]
    if k == "call" and t[1] in ("set", "list", "sorted", "tuple") and not t[3]:
        if not t[2]:
            return frozenset(), frozenset()
        if len(t[2]) == 1:
            return setnf(t[2][0])
        return None
    if k == "seq" and not t[1]:
        return frozenset(), frozenset()
    if k == "set":
        return frozenset(("elem", x) for x in t[1]), frozenset()
    if k in ("union", "concat"):
        a, b = setnf(t[1]), setnf(t[2])
        if a is None or b is None or a[1] or b[1]:
            return None
        return a[0] | b[0], frozenset()
    if k == "app":
        a = setnf(t[1])
        if a is None or a[1]:
            return None
        return a[0] | {("elem", t[2])}, frozenset()
    if k == "flatmap":
        inner = setnf(t[1])
        if inner is None or inner[1]:
            return None
        return frozenset(("for", T.alpha(("b", g, t[2], t[3], t[4]))) for g in inner[0]), frozenset()
    if k == "map":
        return frozenset({("gen", T.alpha(t))}), frozenset()
    if k == "phi":
        # `if e in S: S.remove(e)` is S without e either way
        a, b = setnf(t[2]), setnf(t[3])
        if a is not None and b is not None and a[0] == b[0]:
            extra = a[1] ^ b[1]
            c = t[1]
            neg = c[0] == "not"
            c_ = c[1] if neg else c
            if len(extra) == 1 and c_[0] == "in" and c_[1] in extra and ((not neg and c_[1] in a[1]) or (neg and c_[1] in b[1])):
                return a[0], a[1] | b[1]
        return None
    if k == "mut" and t[1] in ("remove", "discard") and len(t[3]) == 1:
        a = setnf(t[2])
        if a is None:
            return None
        return a[0], a[1] | {t[3][0]}
    if k == "poly" and len(t[1]) == 2:
        # A - B on sets
        pos = [m for m, c in t[1] if c == 1 and len(m) == 1 and m[0][1] == 1]
        negs = [m for m, c in t[1] if c == -1 and len(m) == 1 and m[0][1] == 1]
        if len(pos) == 1 and len(negs) == 1:
            a, b = setnf(pos[0][0][0]), setnf(negs[0][0][0])
            if a and b and not b[1] and all(g[0] == "elem" for g in b[0]):
                return a[0], a[1] | {g[1] for g in b[0]}
        return None
    if k in ("attr", "sym", "idx"):
        return frozenset({("all", t)}), frozenset()
    return None


# ------------------------------------------------------------------ membership normal form
def member(x, coll):
    """canonical formula for  x in coll  where coll is built from literals, concat/union, comprehensions"""
    k = coll[0]
    if k == "seq":
        return T.b_or(*[T.cmp("Eq", x, e) for e in coll[1]]) if coll[1] else T.FALSE
    if k in ("concat", "union"):
        return T.b_or(member(x, coll[1]), member(x, coll[2]))
    if k == "call" and coll[1] in ("list", "set", "tuple") and len(coll[2]) == 1:
        return member(x, coll[2][0])
    if k == "map":
        elt, bv, it, cond = coll[1:5]
        if elt == bv:
            return T.b_and(member(x, it), T.substitute(cond, {bv: x}))
        return ("exists", T.b_and(cond, T.cmp("Eq", elt, x)), bv, it)
    if k == "flatmap":
        inner, bv, it, cond = coll[1:5]
        if inner[0] == "map" and inner[1] == bv:
            # [E for E in it for v in it2(E) if cond2(E, v)]  : x is such an E with a witness v
            _, _, bv2, it2, cond2 = inner
            sub = {bv: x}
            return T.b_and(member(x, it), T.substitute(cond, sub),
                           ("exists", T.substitute(cond2, sub), bv2, T.substitute(it2, sub)))
        return ("exists", T.b_and(cond, member(x, inner)), bv, it)
    return ("in", x, coll)


# ------------------------------------------------------------------ NONE: value of a None-returning mutator is used
_LISTISH = (ast.List, ast.ListComp, ast.Dict, ast.DictComp, ast.Set, ast.SetComp)


def _is_container_ctor(repo, func, node):
    if isinstance(node, _LISTISH):
        return True
    if isinstance(node, ast.Call):
        n = call_name(repo, func, node)
        if n in ("list", "dict", "set", "sorted"):
            return True
    return False


def is_container_term(t, summary, depth=0):
    """the term is provably a python list / dict / set (constructor, comprehension, or a loop-carried one)"""
    if depth > 6:
        return False
    k = t[0]
    if k in ("seq", "map", "concat", "flatmap", "dict", "set", "app", "union"):
        return True
    if k == "call" and t[1] in ("list", "dict", "set", "sorted"):
        return True
    if k == "mut":
        return is_container_term(t[2], summary, depth + 1)
    if k == "lc":
        init = summary.loop_init.get((t[1], t[2]))
        return init is not None and is_container_term(init, summary, depth + 1)
    if k == "phi":
        return is_container_term(t[2], summary, depth + 1) and is_container_term(t[3], summary, depth + 1)
    return False


def none_rule_sites(repo, func):
    """[(node, receiver text, method)]: the result of a list/dict/set mutator (always None) is bound or returned,
    and the receiver is provably a container on every reaching definition (so np.insert(...) is not matched)"""
    from .model import NONE_RETURNING
    s = sym.summarize(repo, func.qualname)
    calls = {id(e.node): e for e in s.events if e.kind == "call"}
    out = []
    for e in s.events:
        if e.kind not in ("assign", "store", "return"):
            continue
        v = getattr(e.node, "value", None)
        if not (isinstance(v, ast.Call) and isinstance(v.func, ast.Attribute) and v.func.attr in NONE_RETURNING):
            continue
        ce = calls.get(id(v))
        if ce is None or ce.recv is None:
            continue
        if is_container_term(ce.recv, s):
            out.append((e.node, unparse(v.func.value), v.func.attr))
    return out


# ------------------------------------------------------------------ small array algebra normal form
def arrnf(t):
    """1-D constant vectors and stacking: [c]*n, np.ones(n), np.zeros(n), np.array(...), concatenation, reshape(-1, 1)"""
    def f(x):
        k = x[0]
        if k == "rep" and x[1][0] == "seq" and len(x[1][1]) == 1:
            return ("fill", x[1][1][0], x[2])
        if k == "call":
            fn, a = x[1], x[2]
            if fn in ("numpy.array", "numpy.asarray") and len(a) >= 1 and a[0][0] in ("fill", "concat", "seq", "rep", "arr"):
                return a[0] if a[0][0] != "arr" else T.seq(a[0][1])
            if fn in ("numpy.ones", "numpy.zeros") and len(a) == 1 and a[0][0] == "seq" and len(a[0][1]) == 2 and a[0][1][0] == T.num(1):
                # a (1, n) block: one row
                return ("row", ("fill", T.num(1) if fn == "numpy.ones" else T.num(0), a[0][1][1]))
            if fn == "numpy.vstack" and len(a) == 1 and a[0][0] == "seq" and any(p_[0] == "row" for p_ in a[0][1]):
                # stacking a (1, n) block under a matrix is stacking the 1-D vector
                return ("call", "numpy.vstack", (T.seq(tuple(p_[1] if p_[0] == "row" else p_ for p_ in a[0][1])),), x[3])
            if fn == "numpy.column_stack" and len(a) == 1 and a[0][0] == "seq" and len(a[0][1]) == 2 and a[0][1][1][0] in ("fill", "concat", "seq"):
                # column_stack((M, v)) with a 1-D v appends v as a column: hstack((M, v.reshape(-1, 1)))
                return ("call", "numpy.hstack", (T.seq((a[0][1][0], ("col", a[0][1][1]))),), x[3])
            if fn in ("numpy.ones", "numpy.zeros") and len(a) == 1 and a[0][0] not in ("seq", "arr"):
                c = T.num(1) if fn == "numpy.ones" else T.num(0)
                if a[0][0] == "num" and a[0][1].denominator == 1 and 0 <= a[0][1] <= 4:
                    return T.seq((c,) * int(a[0][1]))
                return ("fill", c, a[0])
            if fn == "numpy.full" and len(a) == 2 and a[0][0] not in ("seq", "arr"):
                return ("fill", a[1], a[0])
            if fn == "numpy.concatenate" and len(a) == 1 and a[0][0] == "seq" and len(a[0][1]) >= 1:
                axis = dict(x[3]).get("axis", T.num(0)) if x[3] else T.num(0)
                if axis == T.num(0) and any(p_[0] == "row" for p_ in a[0][1]):
                    # joining (1, n) blocks below a matrix along axis 0 is vstack
                    return ("call", "numpy.vstack", (T.seq(tuple(p_[1] if p_[0] == "row" else p_ for p_ in a[0][1])),), ())
                if axis == T.num(1):
                    return ("call", "numpy.hstack", (a[0],), ())
                if axis == T.num(0):
                    return _concat(list(a[0][1]))
                return None
            if fn == "numpy.append" and len(a) == 2:
                return _concat([a[0], a[1] if a[1][0] in ("seq", "fill", "concat", "rep") else T.seq((a[1],))])
            if fn == ("m", "reshape") and len(a) == 3 and a[1] == T.num(-1) and a[2] == T.num(1):
                return ("col", a[0])
            if fn == ("m", "reshape") and len(a) == 2 and a[1] == T.seq((T.num(-1), T.num(1))):
                return ("col", a[0])
        if k == "arr":
            return T.seq(x[1])
        if k == "idx" and x[2][0] == "seq" and len(x[2][1]) == 2 and x[1][0] in ("fill", "concat", "seq"):
            # v[np.newaxis, :] / v[None, :] is the 1-D vector as one row, v[:, np.newaxis] as one column
            NEW = (("mod", "numpy.newaxis"), T.NONE)
            full = ("slice", T.NONE, T.NONE, T.NONE)
            a0, a1 = x[2][1]
            if a0 in NEW and a1 == full:
                return ("row", x[1])
            if a1 in NEW and a0 == full:
                return ("col", x[1])
        if k == "call" and x[1] == ("m", "reshape") and len(x[2]) == 3 and x[2][1] == T.num(1) and x[2][2] == T.num(-1) and x[2][0][0] in ("fill", "concat", "seq"):
            return ("row", x[2][0])
        if k == "call" and x[1] == "numpy.atleast_2d" and len(x[2]) == 1 and x[2][0][0] in ("fill", "concat", "seq"):
            return ("row", x[2][0])
        if k == "concat" and len(x) == 3:
            return _concat([x[1], x[2]])
        return None
    return T.transform(t, f)


def _concat(parts):
    """concatenation is associative with [] as unit: flatten, drop empty literals, merge adjacent literals, nest to the left"""
    flat = []

    def go(p):
        if p[0] == "concat" and len(p) == 3:
            go(p[1])
            go(p[2])
        elif p[0] == "seq" and not p[1]:
            pass
        elif p[0] == "seq" and flat and flat[-1][0] == "seq":
            flat[-1] = T.seq(flat[-1][1] + p[1])
        elif p[0] == "fill" and flat and flat[-1][0] == "fill" and flat[-1][1] == p[1]:
            flat[-1] = ("fill", p[1], T.add(flat[-1][2], p[2]))          # [c]*n + [c]*m == [c]*(n+m)
        elif p[0] == "seq" and p[1] and flat and flat[-1][0] == "fill" and all(e == flat[-1][1] for e in p[1]):
            flat[-1] = ("fill", flat[-1][1], T.add(flat[-1][2], T.num(len(p[1]))))
        elif p[0] == "fill" and flat and flat[-1][0] == "seq" and flat[-1][1] and all(e == p[1] for e in flat[-1][1]):
            flat[-1] = ("fill", p[1], T.add(p[2], T.num(len(flat[-1][1]))))
        else:
            flat.append(p)
    for p in parts:
        go(p)
    if not flat:
        return T.seq(())
    out = flat[0]
    for p in flat[1:]:
        out = ("concat", out, p)
    return out


# ------------------------------------------------------------------ affine weights (points vs. vectors) over terms
TOP = "TOP"       # not an affine function of the translated coordinates (e.g. a product of two positions)


SHIFT = ("sym", "<shift>")


class AffTyper:
    """Affine typing by symbolic translation: every seeded quantity q is replaced by q + s*w(q) (s a fresh symbol) and the
    polynomial normal forms are compared.  weight(t) = (t[shifted] - t) / s when that quotient is s-free:
    ZERO = translation invariant, ONE = a proper point, TOP = not affine.  Exact for polynomial terms, so
    (p1.x - p0.x)**2 is invariant although its expansion contains squares of positions.
    seed(atom) -> weight term | None;  calls: transfer kind per callable ('same' | 'vector' | 'invariant' | 'zero')"""

    def __init__(self, seed, calls=None):
        self.seed = seed
        self.calls = calls or {}

    def shifted(self, t):
        sd = self.seed(t)
        if sd is not None:
            return T.add(t, T.mul(SHIFT, sd))
        k = t[0]
        if k in ("num", "bool", "str", "none", "sym", "bv", "mod", "opt", "fn", "cls", "lc", "slice"):
            return t
        if k == "poly":
            out = T.ZERO
            for m, c in t[1]:
                mono = ("num", c)
                for a, e in m:
                    sa = self.shifted(a)
                    if sa == TOP:
                        return TOP
                    if sa != a and (e.denominator != 1 or e < 0):
                        return TOP                 # root / reciprocal of a translated quantity
                    mono = T.mul(mono, T.power(sa, e))
                out = T.add(out, mono)
            return out
        if k == "call":
            fn = t[1]
            key = fn if isinstance(fn, str) else fn[1] if fn[0] == "m" else None
            kind = self.calls.get(key)
            if kind is None:
                raise AnalysisError(f"affine typing: no transfer rule for call {T.show(t)[:100]}")
            ws = [self.weight(a) for a in t[2]]
            if kind == "zero":
                return t
            if any(w == TOP for w in ws):
                return TOP
            if kind == "invariant":
                return t if all(w == T.ZERO for w in ws) else TOP
            if kind == "vector":
                return t
            if kind == "same":
                w = ws[0] if ws else T.ZERO
                if any(x != w for x in ws if x != T.ZERO) and len({x for x in ws}) > 1:
                    return TOP
                return T.add(t, T.mul(SHIFT, w))
            raise AnalysisError(f"affine typing: unknown transfer kind {kind}")
        if k in ("cmp", "ige", "and", "or", "not", "in", "exists", "forall"):
            return t
        # structural
        out = []
        for x in t:
            if isinstance(x, tuple) and x and isinstance(x[0], str):
                sx = self.shifted(x)
                if sx == TOP:
                    return TOP
                out.append(sx)
            elif isinstance(x, tuple):
                sub = []
                for y in x:
                    if isinstance(y, tuple) and y and isinstance(y[0], str):
                        sy = self.shifted(y)
                        if sy == TOP:
                            return TOP
                        sub.append(sy)
                    else:
                        sub.append(y)
                out.append(tuple(sub))
            else:
                out.append(x)
        return tuple(out)

    def weight(self, t):
        if t[0] in ("seq", "arr"):
            ws = [self.weight(x) for x in t[1]]
            if any(w == TOP for w in ws):
                return TOP
            return ws[0] if ws and all(w == ws[0] for w in ws) else (T.ZERO if not ws else TOP)
        if t[0] == "phi":
            a, b = self.weight(t[2]), self.weight(t[3])
            return a if a == b else TOP
        if t[0] in ("map", "sum"):
            return self.weight(t[1])
        if t[0] == "idx":
            sd = self.seed(t)
            if sd is None:
                return self.weight(t[1])
        st = self.shifted(t)
        if st == TOP:
            return TOP
        try:
            d = T.sub(st, t)
        except Exception:
            return TOP
        if d == T.ZERO:
            return T.ZERO
        if T.substitute(d, {SHIFT: T.ZERO}) != T.ZERO:
            return TOP
        W = T.substitute(d, {SHIFT: T.ONE})
        if T.contains(W, SHIFT) or T.mul(SHIFT, W) != d:
            return TOP
        return W


BASIC_AFF_CALLS = {
    "mean": "same", "median": "same", "numpy.mean": "same", "max": "same", "min": "same", "numpy.max": "same", "numpy.min": "same",
    "numpy.roll": "same", "numpy.array": "same", "list": "same", "float": "same", "astype": "same", "transpose": "same",
    "numpy.concatenate": "same", "copy": "same", "flatten": "same", "zip": "same",
    "numpy.gradient": "vector", "numpy.diff": "vector",
    "numpy.linalg.norm": "invariant", "abs": "invariant", "numpy.sign": "invariant", "numpy.arccos": "invariant",
    "numpy.sum": "invariant", "sum": "invariant", "numpy.dot": "invariant", "matmul": "invariant", "round": "invariant", "int": "invariant",
    "len": "zero", "index": "zero", "numpy.count_nonzero": "zero", "range": "zero", "numpy.zeros": "zero", "numpy.ones": "zero", "numpy.empty": "zero",
}


# ------------------------------------------------------------------ module-level mutable state
def module_level_mutated(repo, module_name):
    """[(name, Func, store)] module-level containers (dict / list / set literals or constructors) that some function of the
    module mutates - state shared by every object and every call in the process"""
    m = repo.modules.get(module_name)
    if m is None:
        return []
    shared = {}
    for st in m.tree.body:
        tgt = val = None
        if isinstance(st, ast.Assign) and len(st.targets) == 1 and isinstance(st.targets[0], ast.Name):
            tgt, val = st.targets[0].id, st.value
        elif isinstance(st, ast.AnnAssign) and isinstance(st.target, ast.Name) and st.value is not None:
            tgt, val = st.target.id, st.value
        if tgt is None:
            continue
        if isinstance(val, (ast.Dict, ast.List, ast.Set)) or (isinstance(val, ast.Call) and isinstance(val.func, ast.Name) and val.func.id in ("dict", "list", "set", "defaultdict")):
            shared[tgt] = st
    out = []
    for f in m.functions.values():
        local_rebinds = {n.id for n in repo.own_nodes(f) if isinstance(n, ast.Name) and isinstance(n.ctx, ast.Store)}
        params = set(f.params)
        for st in repo.stores(f):
            name = st["attr"][1:] if st["attr"].startswith("$") else None
            if name in shared and name not in local_rebinds and name not in params and st["kind"] in ("elem", "mut", "del_elem"):
                out.append((name, f, st))
    return out


# ---------------------------------------------------------------------- element additions, whichever way they are spelled
class Addition:
    """one way an element enters a collection: `c.append(e)` under guards, or the element of a comprehension that is assigned,
    concatenated (`c += [e for ...]`, `c.extend(...)`) or united into it.  Looks like an Event: guard, conds(), loops(), args, node."""
    kind = "add"

    def __init__(self, name, coll, elem, guard, node, how):
        self.name, self.coll, self.elem, self.guard, self.node, self.how = name, coll, elem, tuple(guard), node, how
        self.args = (elem,)
        self.fname = ("m", "append")

    def conds(self):
        out = []
        for g in self.guard:
            if g[0] in ("loop", "while", "except", "try"):
                continue
            out.extend(T.conjuncts(g))
        return out

    def loops(self):
        return [g for g in self.guard if g[0] in ("loop", "while")]


def _add_parts(name, coll, v, guard, node, out, top):
    if v[0] in ("concat", "union") and len(v) == 3:
        _add_parts(name, coll, v[1], guard, node, out, False)
        _add_parts(name, coll, v[2], guard, node, out, False)
    elif v[0] == "map":
        g = tuple(guard) + (("loop", v[2][1], v[3]),) + ((v[4],) if v[4] != T.TRUE else ())
        out.append(Addition(name, coll, v[1], g, node, "comprehension"))
    elif v[0] == "flatmap":
        g = tuple(guard) + (("loop", v[2][1], v[3]),) + ((v[4],) if v[4] != T.TRUE else ())
        _add_parts(name, coll, v[1], g, node, out, False)
    elif v[0] == "call" and v[1] in ("list", "set", "tuple") and len(v[2]) == 1 and not top:
        _add_parts(name, coll, v[2][0], guard, node, out, False)
    elif v[0] == "call" and v[1] in ("list", "set", "tuple") and len(v[2]) == 1 and v[2][0][0] in ("map", "flatmap"):
        _add_parts(name, coll, v[2][0], guard, node, out, False)
    elif v[0] == "seq" and not top:
        for x in v[1]:
            out.append(Addition(name, coll, x, guard, node, "literal"))


def additions(summary):
    out = []
    for e in summary.events:
        if e.kind == "call" and isinstance(e.fname, tuple) and e.fname[0] == "m" and len(e.args) == 1:
            nm = e.node.func.value.id if isinstance(e.node.func, ast.Attribute) and isinstance(e.node.func.value, ast.Name) else None
            if e.fname[1] in ("append", "add"):
                out.append(Addition(nm, e.recv, e.args[0], e.guard, e.node, "append"))
            elif e.fname[1] in ("extend", "update"):
                _add_parts(nm, e.recv, e.args[0], e.guard, e.node, out, False)
        elif e.kind == "assign":
            _add_parts(e.name, e.old, e.value, e.guard, e.node, out, True)
        elif e.kind == "store" and not e.sub:
            _add_parts(e.attr, None, e.value, e.guard, e.node, out, True)
    return out


# ---------------------------------------------------------------------- roles of a loop's bound variable (canonical idioms of sym.canon_loop)
class Roles:
    """what the bound variable of a canonical loop stands for: pos/elem over a sequence `base` (enumerate), key/val over a
    mapping `base` (items), val (values), or just the element/key of `base` (plain iteration)"""

    def __init__(self, g):
        self.L, it = g[1], g[2]
        bv = ("bv", g[1])
        self.bv = bv
        P0, P1 = T.idx(bv, T.num(0)), T.idx(bv, T.num(1))
        self.pos = self.elem = self.key = self.val = None
        if it[0] == "call" and it[1] == "enumerate" and len(it[2]) == 1:
            self.kind, self.base, self.pos, self.elem = "enumerate", it[2][0], P0, P1
        elif it[0] == "call" and it[1] == ("m", "items") and len(it[2]) == 1:
            self.kind, self.base, self.key, self.val = "items", it[2][0], P0, P1
        elif it[0] == "call" and it[1] == ("m", "values") and len(it[2]) == 1:
            self.kind, self.base, self.val, self.elem = "values", it[2][0], bv, bv
        elif it[0] == "call" and it[1] == "range" and len(it[2]) == 1 and it[2][0][0] == "call" and it[2][0][1] == "len":
            self.kind, self.base, self.pos = "positions", it[2][0][2][0], bv
        else:
            self.kind, self.base, self.elem, self.key = "plain", it, bv, bv
            self.val = T.idx(it, bv)

    def key_of(self):
        return self.key if self.key is not None else self.bv


def roles(g):
    return Roles(g)


# ---------------------------------------------------------------------- entries of a mapping, whichever way they are written
def entries(summary, attr=None, name=None):
    """(key, value) pairs entering a mapping: `d[k] = v` under guards, or the pairs of a dict comprehension / dict(enumerate(..)) /
    dict(zip(..)) assigned to it.  Yields Addition objects with .key and .elem (= value); attr selects `<x>.attr`, name a local."""
    out = []

    def from_value(v, guard, node, nm):
        if v[0] == "call" and v[1] == "dict" and len(v[2]) == 1:
            m = v[2][0]
            if m[0] == "map" and m[1][0] == "seq" and len(m[1][1]) == 2:
                g = tuple(guard) + (("loop", m[2][1], m[3]),) + ((m[4],) if m[4] != T.TRUE else ())
                a = Addition(nm, None, m[1][1][1], g, node, "comprehension")
                a.key = m[1][1][0]
                out.append(a)
            elif m[0] == "call" and m[1] in ("enumerate", "zip", ("m", "items")):
                bv = ("bv", "pairs")
                g = tuple(guard) + (("loop", "pairs", m),)
                a = Addition(nm, None, T.idx(bv, T.num(1)), g, node, "pairs")
                a.key = T.idx(bv, T.num(0))
                out.append(a)
    for e in summary.events:
        if e.kind == "call" and e.fname == ("m", "setdefault") and len(e.args) == 2 and attr is None and name is None:
            a = Addition(None, e.recv, e.args[1], e.guard, e.node, "setdefault")
            a.key = e.args[0]
            out.append(a)
        if e.kind == "store" and e.sub and (attr is None or e.attr == attr) and (name is None or e.attr == "$" + name or e.attr == name):
            a = Addition(e.attr, e.base, e.value, e.guard, e.node, "store")
            a.key = e.key
            out.append(a)
        elif e.kind == "store" and not e.sub and attr is not None and e.attr == attr:
            from_value(e.value, e.guard, e.node, attr)
        elif e.kind == "assign" and name is not None and e.name == name:
            from_value(e.value, e.guard, e.node, name)
    return out


# ---------------------------------------------------------------------- choices under an assumption, factors of a product
def assume(t, facts):
    """the value of a choice tree when the given conditions are known to hold: choices on one of them (or its negation) are resolved"""
    facts = set(facts)
    neg = {T.b_not(f_) for f_ in facts}

    def f(x):
        if x[0] == "phi":
            cs = set(T.conjuncts(x[1]))
            if cs and cs <= facts:
                return x[2]
            if x[1] in neg or any(c in neg for c in cs):
                return x[3]
            nc = set(T.conjuncts(T.b_not(x[1])))
            if nc and nc <= facts:
                return x[3]
        return None
    return T.transform(t, f)


def extra_factor(raw, corrected, candidates=()):
    """K with raw * K == corrected: one of the candidates, or the product of the atoms that corrected has and raw has not"""
    for k in list(candidates) + [T.num(-1)]:
        try:
            if T.mul(raw, k) == corrected:
                return k
        except Exception:
            pass

    def atoms(t):
        out = set()
        for x in T.subterms(t):
            if x[0] == "poly":
                for m, c in x[1]:
                    for a, e in m:
                        out.add(a)
        return out
    extra = [a for a in atoms(corrected) if a not in atoms(raw)]
    if 1 <= len(extra) <= 3:
        k = T.num(1)
        for a in sorted(extra, key=repr):
            k = T.mul(k, a)
        try:
            if T.mul(raw, k) == corrected:
                return k
        except Exception:
            pass
    return None


def fresh_build(ctx, which):
    """ForSys.build_force_matrix / build_pressure_matrix store, unconditionally and under the requested key, a matrix object newly built
    from the requested frame and the object's own time series: nothing built in an earlier call (other options, other tensions, other
    vertex positions) can be what a later solve reads"""
    builder, store, ctor = {"force": ("build_force_matrix", "force_matrices", "new:forsys.fmatrix.ForceMatrix"),
                            "pressure": ("build_pressure_matrix", "pressure_matrices", "new:forsys.pmatrix.PressureMatrix")}[which]
    repo = ctx.repo
    SELF = T.sym("self")
    fbuild = repo.func(f"forsys.forsys.ForSys.{builder}")
    ctx.touch(fbuild)
    sb_ = sym.summarize(repo, fbuild.qualname)
    when = T.sym(fbuild.params[1]) if len(fbuild.params) > 1 else T.sym("when")
    sts = [e for e in sb_.stores(store) if e.sub]
    ok = len(sts) == 1 and sts[0].key == when and sts[0].value[0] == "call" and sts[0].value[1] == ctor and sts[0].value[2] \
        and sts[0].value[2][0] == T.idx(T.attr(SELF, "frames"), when) and not sts[0].conds()
    kw = dict(sts[0].value[3]) if sts else {}
    ok_ts = kw.get("timeseries") == T.attr(SELF, "mesh") or (sts and len(sts[0].value[2]) > 1 and T.attr(SELF, "mesh") in sts[0].value[2])
    ctx.check(ok and ok_ts, "ALIGN", f"{fbuild.qualname} / ALIGN / {store}[when] = matrix of frames[when] (timeseries = self.mesh)", ctx.where(fbuild),
              "key, frame and time series all belong to the requested frame; the store is unconditional",
              f"{store} entry is {T.show(T.alpha(sts[0].key)) if sts else '?'} <- {T.show(T.alpha(sts[0].value))[:160] if sts else '?'}"
              f"{' only under ' + str([T.show(c)[:80] for c in sts[0].conds()]) if sts and sts[0].conds() else ''}: not (always) built from the requested frame's own data")
    return sts[0] if sts else None


def no_mutated_defaults(ctx, roots):
    """no function reachable from `roots` writes into a mutable default argument (a value shared by every call in the process)"""
    repo = ctx.repo
    n_def = 0
    for q in sorted(repo.reachable(roots)):
        fq = repo.functions[q]
        for pname, d in fq.defaults().items():
            if isinstance(d, (ast.Dict, ast.List, ast.Set)):
                n_def += 1
                muts = [st_ for st_ in repo.stores(fq) if st_["attr"] == "$" + pname and st_["kind"] in ("elem", "mut", "del_elem")]
                for st_ in muts:
                    ctx.violation("STATE", f"{q} / STATE / mutable default argument `{pname}` mutated", ctx.where(fq, st_["node"]),
                                  f"`{fq.module.line(st_['node'].lineno)}` writes into the default value of `{pname}`, which is shared by all calls")
    ctx.ok("STATE", "closure / STATE / mutable default arguments scanned", "forsys/*", f"{n_def} mutable defaults on the closure of {len(roots)} entry points, none mutated")


# ------------------------------------------------------------------ results kept between calls (memoisation without invalidation)
MEMO_DECORATORS = {"cache", "lru_cache", "cached_property"}
CONSTRUCTORS = ("__init__", "__post_init__", "__new__")


def _empty_value(v):
    if isinstance(v, ast.Constant):
        return True
    if isinstance(v, (ast.List, ast.Tuple, ast.Set)) and not v.elts:
        return True
    if isinstance(v, ast.Dict) and not v.keys:
        return True
    if isinstance(v, ast.Call) and isinstance(v.func, ast.Name) and v.func.id in ("dict", "list", "set", "defaultdict", "OrderedDict") \
            and not v.keywords and (not v.args or (v.func.id == "defaultdict" and all(isinstance(a, ast.Name) for a in v.args))):
        return True
    return False


def _slot_reads(expr, owner, name):
    """does `expr` read <owner>.<name> (attribute load, getattr/hasattr with the literal name, vars()/__dict__ membership)?"""
    for n in ast.walk(expr):
        if isinstance(n, ast.Attribute) and n.attr == name and isinstance(n.value, ast.Name) and n.value.id == owner:
            return True
        if isinstance(n, ast.Call) and isinstance(n.func, ast.Name) and n.func.id in ("getattr", "hasattr") and len(n.args) >= 2 \
                and isinstance(n.args[0], ast.Name) and n.args[0].id == owner and isinstance(n.args[1], ast.Constant) and n.args[1].value == name:
            return True
        if isinstance(n, ast.Compare) and isinstance(n.left, ast.Constant) and n.left.value == name and \
                any(isinstance(c, ast.Attribute) and c.attr == "__dict__" or (isinstance(c, ast.Call) and isinstance(c.func, ast.Name) and c.func.id == "vars")
                    for c in n.comparators):
            return True
    return False


def _attr_loads(node):
    return {n.attr for n in ast.walk(node) if isinstance(n, ast.Attribute) and isinstance(n.ctx, ast.Load)}


def mutable_attributes(repo):
    """attribute names that some function other than a constructor writes (re-binds, stores into, mutates)"""
    memo = repo.__dict__.setdefault("_mutable_attrs", None)
    if memo is None:
        memo = {}
        for f in repo.functions.values():
            if f.name in CONSTRUCTORS:
                continue
            for s in repo.stores(f):
                if not s["attr"].startswith("$"):
                    memo.setdefault(s["attr"], f"{f.qualname} ({f.module.relpath}:{s['node'].lineno})")
        repo.__dict__["_mutable_attrs"] = memo
    return memo


def memo_sites(repo, f):
    """memoisation in one function: a slot <self|parameter>.<name> that f fills with a computed value and, on a later call, tests and
    reads back instead of computing; or a caching decorator.  -> [(slot description, node, attributes the reuse test looks at)]"""
    out = []
    for d in f.node.decorator_list:
        dn = d.func if isinstance(d, ast.Call) else d
        nm = dn.attr if isinstance(dn, ast.Attribute) else dn.id if isinstance(dn, ast.Name) else None
        if nm in MEMO_DECORATORS:
            out.append((f"@{nm}", f.node, set(), None))
    if f.name in CONSTRUCTORS:
        return out
    a = f.node.args
    owners = {x.arg for x in a.posonlyargs + a.args + a.kwonlyargs}
    nodes = list(repo.own_nodes(f))
    writes = {}
    for n in nodes:
        tv = []
        if isinstance(n, ast.Assign):
            tv = [(t, n.value) for t in n.targets]
        elif isinstance(n, ast.AnnAssign) and n.value is not None:
            tv = [(n.target, n.value)]
        for t, v in tv:
            b = t
            while isinstance(b, ast.Subscript):
                b = b.value
            if isinstance(b, ast.Attribute) and isinstance(b.value, ast.Name) and b.value.id in owners:
                writes.setdefault((b.value.id, b.attr), []).append((n, t, v))
    if not writes:
        return out
    local_rhs = {}
    for n in nodes:
        if isinstance(n, ast.Assign) and len(n.targets) == 1 and isinstance(n.targets[0], ast.Name):
            local_rhs.setdefault(n.targets[0].id, []).append(n.value)
    branches = [n for n in nodes if isinstance(n, (ast.If, ast.IfExp))]
    tests = [n.test for n in branches]
    top = list(f.node.body)
    for (owner, name), ws in sorted(writes.items()):
        # a value computed from the slot itself (`self.n = self.n + 1`) is a counter / accumulator: state, not a kept result
        computed = [(n, t, v) for n, t, v in ws if not _empty_value(v) and not _slot_reads(v, owner, name)]
        if not computed:
            continue
        # a declared field of the object (dataclass field, class-level annotation) is its state, not a private slot for results
        if owner == "self" and f.cls is not None and any(name in getattr(k, "fields", {}) for k in repo.mro(f.cls)):
            continue
        # a slot re-bound unconditionally at the top of the function is a per-call scratch value, not a result kept between calls
        if any(n in top and isinstance(t, ast.Attribute) for n, t, v in ws):
            first_test = min((x.lineno for x in tests if _slot_reads(x, owner, name)), default=None)
            if first_test is not None and any(n in top and isinstance(t, ast.Attribute) and n.lineno < first_test for n, t, v in ws):
                continue
        # local aliases of the slot (`cached = getattr(self, "_c", None)`)
        aliases = {ln for ln, rhs in local_rhs.items() if all(_slot_reads(r, owner, name) for r in rhs)}
        guards = []
        for br in branches:
            x = br.test
            if not (_slot_reads(x, owner, name) or any(isinstance(m, ast.Name) and m.id in aliases for m in ast.walk(x))):
                continue
            # the test decides between reusing and computing: the filling store sits in one of its arms, or one arm leaves the
            # function (hands out the stored value) and the store follows
            inside = any(n is m for n, t, v in computed for m in ast.walk(br))
            leaves = isinstance(br, ast.If) and any(isinstance(m, ast.Return) for part in (br.body, br.orelse) for st_ in part for m in ast.walk(st_)) \
                and any(n.lineno > br.lineno for n, t, v in computed)
            feeds = isinstance(br, ast.IfExp) and any(n.lineno >= br.lineno for n, t, v in computed)
            if inside or leaves or feeds:
                guards.append(x)
        if not guards:
            continue
        key_attrs = set()
        for g in guards:
            key_attrs |= _attr_loads(g)
            for m in ast.walk(g):
                if isinstance(m, ast.Name):
                    key_attrs.add("$" + m.id)
                    if m.id in local_rhs and m.id not in aliases:
                        for r in local_rhs[m.id]:
                            key_attrs |= _attr_loads(r) | {"$" + x.id for x in ast.walk(r) if isinstance(x, ast.Name)}
        key_attrs.discard(name)
        out.append((f"{owner}.{name}", computed[0][0], key_attrs, guards[0]))
    return out


def no_memo(ctx, extra_roots=()):
    """No function the obligations of this property read (nor anything those functions call) keeps a computed result on an object and
    hands it out again on a later call while the data it was computed from may have changed in between: the package moves vertices,
    re-solves tensions and re-builds systems in place, and nothing invalidates such a slot."""
    repo = ctx.repo
    roots = sorted(q for q in set(ctx.functions_analysed) | set(extra_roots) if q in repo.functions)
    closure = sorted(q for q in repo.reachable(roots) if not repo.functions[q].module.name.endswith((".plot", ".auxiliar")))
    mutable = mutable_attributes(repo)
    n_sites = 0
    for q in closure:
        f = repo.functions[q]
        for slot, node, key_attrs, guard in memo_sites(repo, f):
            n_sites += 1
            inputs = set()
            for r in sorted(repo.reachable([q])):
                inputs |= _attr_loads(repo.functions[r].node)
            slot_name = slot.split(".")[-1]
            # writers of the slot elsewhere (other than constructors initialising it empty) are invalidation / ordinary state: not a memo
            others = [(g, s) for g, s in repo.writers_of(slot_name) if g.qualname != q and not (g.name in CONSTRUCTORS and _empty_value(getattr(s["node"], "value", None) or ast.Constant(None)))] \
                if not slot.startswith("@") else []
            if others:
                continue
            stale = sorted(x for x in inputs if x in mutable and x not in key_attrs and x != slot_name)
            key = f"{q} / STATE / result kept in `{slot}` and reused by later calls"
            a_ = f.node.args
            params = [x.arg for x in a_.posonlyargs + a_.args + a_.kwonlyargs] + [x.arg for x in (a_.vararg, a_.kwarg) if x is not None]
            used = {n.id for n in ast.walk(f.node) if isinstance(n, ast.Name) and isinstance(n.ctx, ast.Load)}
            forgotten = [x for x in params if x not in ("self", "cls", slot.split(".")[0]) and x in used and "$" + x not in key_attrs] \
                if not slot.startswith("@") else []
            if forgotten and not stale:
                ctx.violation("STATE", key, ctx.where(f, node),
                              f"`{f.module.line(node.lineno)}`: the stored result is handed out again"
                              f"{' when `' + unparse(guard)[:80] + '`' if guard is not None else ''} whatever the argument(s) "
                              f"{', '.join(forgotten)} of the later call: a call with other arguments reports the result of the first one")
            elif stale:
                ctx.violation("STATE", key, ctx.where(f, node),
                              f"`{f.module.line(node.lineno)}`: the stored result is handed out again"
                              f"{' when `' + unparse(guard)[:80] + '`' if guard is not None else ''}, but it was computed from "
                              f"{', '.join('.' + x for x in stale[:6])}{' ...' if len(stale) > 6 else ''} which the package changes in place "
                              f"(e.g. {mutable[stale[0]]}) and nothing resets the slot: a later call after such a change reports the old value")
            else:
                ctx.ok("STATE", key, ctx.where(f, node), "every changeable attribute the result is computed from takes part in the reuse test")
    ctx.ok("STATE", "closure / STATE / no result of an earlier call is reused without invalidation", "forsys/*",
           f"{len(closure)} functions reachable from the {len(roots)} functions this property reads; {n_sites} memoisation site(s) examined")


# ------------------------------------------------------------------ obligations shared between properties
_LENDING = []


def borrow(ctx, lender, funcs=(), key_parts=(), minimum=1, because="", exclude_rules=()):
    """Obligations that another property's check binds to the given functions are necessary conditions of this property too (the
    statement reads what those functions compute): run the lender's obligations on the same tree and take over the results
    anchored in `funcs` (qualified names) or whose key contains one of `key_parts`.  Not transitive.  A lender that cannot be
    evaluated completely lends what it decided before it stopped; fewer than `minimum` results is 'cannot decide'."""
    from . import core, props
    if _LENDING:
        return []          # we are being evaluated as a lender ourselves
    cache = ctx.repo.__dict__.setdefault("_lender_results", {})
    if lender not in cache:
        _LENDING.append(lender)
        try:
            sub = core.Ctx(lender, ctx.repo, ctx.tier)
            err = None
            try:
                props.load(lender).run(sub)
            except AnalysisError as e:
                err = str(e)
            cache[lender] = (sub, err)
        finally:
            _LENDING.pop()
    sub, err = cache[lender]
    funcs = set(funcs)
    taken = []
    for r in sub.results:
        qn = r.where.split()[1] if len(r.where.split()) > 1 else ""
        if (qn in funcs or any(k in r.key for k in key_parts)) and r.rule not in exclude_rules:
            taken.append(r)
    ctx.clause(f"shared with {lender}: {because}")
    for r in taken:
        ctx.results.append(core.Result(r.rule, r.key, r.status, r.where, r.fact, ctx._clause, r.soft))
        if len(r.where.split()) > 1 and r.where.split()[1] in ctx.repo.functions:
            ctx.touch(ctx.repo.functions[r.where.split()[1]])
    ctx.rule_instances[f"SHARED:{lender}:{','.join(sorted(x.split('.')[-1] for x in funcs)) or ','.join(key_parts)}"] = dict(found=len(taken), frozen_minimum=minimum)
    import re
    at = re.match(r"\S+:\d+ ([\w.<>]+):? ", err or "")
    elsewhere = err is not None and ((at is not None and at.group(1) not in funcs) or (at is None and not any(q in err for q in funcs)))
    if len(taken) < minimum and elsewhere:
        # the lender stopped at an anchor outside the shared functions: nothing is known about them from there, and this property's
        # verdict rests on its own obligations (the lender's own run reports the stop)
        ctx.notes.append(f"obligations shared with {lender} on {sorted(x.split('.')[-1] for x in funcs) or list(key_parts)} not evaluated: "
                         f"{lender} stopped elsewhere ({err[:120]})")
    elif len(taken) < minimum:
        ctx.undecided("SHARED", f"{lender} / obligations on {sorted(funcs) or list(key_parts)}", "forsys/*",
                      f"only {len(taken)} of at least {minimum} obligations of {lender} could be evaluated"
                      f"{' (' + err[:160] + ')' if err else ''}: cannot decide the shared clause")
    return taken

"""E0 - program model: modules, classes, functions, import tables, call resolution,
call graph and per-function effect sets.  Pure `ast`; the analysed package is never
imported.  Sources are read as bytes (CRLF files) so line numbers match the files."""
import ast
import os
from collections import defaultdict


class AnalysisError(Exception):
    """The analyser cannot decide (vanished anchor, unsupported construct, instance count
    below the frozen minimum).  Always exit 2, never a VIOLATION and never a pass."""


MUTATORS = {"append", "remove", "insert", "clear", "update", "extend", "pop", "sort",
            "reverse", "add", "discard", "popitem", "setdefault"}
NONE_RETURNING = {"append", "remove", "insert", "clear", "update", "extend", "sort",
                  "reverse", "add", "discard"}


class Func:
    def __init__(self, qualname, node, module, cls=None, parent=None):
        self.qualname = qualname
        self.node = node
        self.module = module
        self.cls = cls
        self.parent = parent
        self.name = node.name

    @property
    def params(self):
        a = self.node.args
        return [x.arg for x in a.posonlyargs + a.args]

    def defaults(self):
        """parameter name -> default AST node"""
        a = self.node.args
        pos = a.posonlyargs + a.args
        out = {}
        for p, d in zip(pos[len(pos) - len(a.defaults):], a.defaults):
            out[p.arg] = d
        for p, d in zip(a.kwonlyargs, a.kw_defaults):
            if d is not None:
                out[p.arg] = d
        return out

    @property
    def is_static(self):
        return any(isinstance(d, ast.Name) and d.id == "staticmethod" for d in self.node.decorator_list)

    def where(self, node=None):
        n = node if node is not None else self.node
        return f"{self.module.relpath}:{getattr(n, 'lineno', self.node.lineno)}"

    def __repr__(self):
        return f"<Func {self.qualname}>"


class Cls:
    def __init__(self, qualname, node, module):
        self.qualname = qualname
        self.node = node
        self.module = module
        self.name = node.name
        self.methods = {}
        self.fields = {}       # dataclass-style annotated fields: name -> default node or None
        self.bases = []        # resolved dotted names

    @property
    def is_dataclass(self):
        for d in self.node.decorator_list:
            t = d.func if isinstance(d, ast.Call) else d
            if (isinstance(t, ast.Name) and t.id == "dataclass") or (isinstance(t, ast.Attribute) and t.attr == "dataclass"):
                return True
        return False


class Module:
    def __init__(self, name, relpath, src):
        self.name = name
        self.relpath = relpath
        self.src = src
        try:
            self.tree = ast.parse(src, filename=relpath)
        except SyntaxError as e:
            raise AnalysisError(f"module {relpath} does not parse: {e}")
        self.imports = {}
        self.functions = {}
        self.classes = {}
        self.lines = src.decode("utf-8", "replace").splitlines()

    def line(self, lineno):
        return self.lines[lineno - 1].strip() if 0 < lineno <= len(self.lines) else ""


class Repo:
    PKG = "forsys"

    def __init__(self, sources, root="<memory>"):
        """sources: {relative path like 'forsys/edge.py': bytes}"""
        self.root = root
        self.modules = {}
        self.functions = {}
        self.classes = {}
        self.methods_by_name = defaultdict(list)
        for rel, src in sorted(sources.items()):
            base = rel[:-3].replace("/", ".")
            if base.endswith(".__init__"):
                base = base[: -len(".__init__")]
            self.modules[base] = Module(base, rel, src)
        for m in self.modules.values():
            self._index_module(m)
        for c in self.classes.values():
            c.bases = [self.dotted(b, c.module) for b in c.node.bases]
        self._cg = None
        self._effects = None

    # ------------------------------------------------------------------ loading
    @classmethod
    def load(cls, root=None):
        root = root or os.environ.get("FSV_REPO", "/repo")
        pkg = os.path.join(root, cls.PKG)
        if not os.path.isdir(pkg):
            raise AnalysisError(f"package directory {pkg} not found")
        sources = {}
        for dirpath, dirnames, filenames in os.walk(pkg):
            dirnames[:] = [d for d in dirnames if d != "__pycache__"]
            for fn in filenames:
                if fn.endswith(".py"):
                    p = os.path.join(dirpath, fn)
                    with open(p, "rb") as f:
                        sources[os.path.relpath(p, root)] = f.read()
        return cls(sources, root)

    def variant(self, relpath, new_src):
        srcs = {m.relpath: m.src for m in self.modules.values()}
        srcs[relpath] = new_src
        return Repo(srcs, self.root)

    def _index_module(self, m):
        for node in ast.walk(m.tree):
            if isinstance(node, ast.Import):
                for a in node.names:
                    if a.asname:
                        m.imports[a.asname] = a.name
                    else:
                        m.imports[a.name.split(".")[0]] = a.name.split(".")[0]
            elif isinstance(node, ast.ImportFrom):
                mod = node.module or ""
                if node.level:
                    parts = m.name.split(".")
                    # a module 'forsys.x' at level 1 -> package 'forsys'
                    is_pkg = m.relpath.endswith("__init__.py")
                    up = node.level - (1 if is_pkg else 0)
                    basep = parts[: len(parts) - up] if up else parts
                    mod = ".".join(basep + ([mod] if mod else []))
                for a in node.names:
                    m.imports[a.asname or a.name] = f"{mod}.{a.name}"

        def visit(body, prefix, cls, parent):
            for node in body:
                if isinstance(node, (ast.FunctionDef, ast.AsyncFunctionDef)):
                    q = f"{prefix}.{node.name}"
                    f = Func(q, node, m, cls, parent)
                    self.functions[q] = f
                    m.functions[q] = f
                    if cls is not None and parent is None:
                        cls.methods[node.name] = f
                        self.methods_by_name[node.name].append(f)
                    visit_nested(node, q, f)
                elif isinstance(node, ast.ClassDef):
                    q = f"{prefix}.{node.name}"
                    c = Cls(q, node, m)
                    self.classes[q] = c
                    m.classes[q] = c
                    for st in node.body:
                        if isinstance(st, ast.AnnAssign) and isinstance(st.target, ast.Name):
                            c.fields[st.target.id] = st.value
                    visit(node.body, q, c, None)

        def visit_nested(fnode, q, parent):
            for sub in ast.walk(fnode):
                if sub is fnode:
                    continue
                if isinstance(sub, (ast.FunctionDef, ast.AsyncFunctionDef)):
                    qq = f"{q}.<locals>.{sub.name}"
                    if qq not in self.functions:
                        f = Func(qq, sub, m, parent.cls, parent)
                        self.functions[qq] = f
                        m.functions[qq] = f

        visit(m.tree.body, m.name, None, None)

    # ------------------------------------------------------------------ lookup
    def func(self, qualname):
        f = self.functions.get(qualname)
        if f is None:
            raise AnalysisError(f"anchor vanished: function {qualname} not found - re-bind the anchor")
        return f

    def cls(self, qualname):
        c = self.classes.get(qualname)
        if c is None:
            raise AnalysisError(f"anchor vanished: class {qualname} not found - re-bind the anchor")
        return c

    def mro(self, c):
        out, seen, todo = [], set(), [c]
        while todo:
            x = todo.pop(0)
            if x.qualname in seen:
                continue
            seen.add(x.qualname)
            out.append(x)
            for b in x.bases:
                if b in self.classes:
                    todo.append(self.classes[b])
        return out

    def method(self, c, name):
        for k in self.mro(c):
            if name in k.methods:
                return k.methods[name]
        return None

    def dotted(self, expr, module):
        """Resolve Name / Attribute chains through the module's import table to a dotted
        string ('forsys.virtual_edges.eid_from_vertex', 'numpy.zeros'); None if the base
        is not an imported / module-level name."""
        parts = []
        e = expr
        while isinstance(e, ast.Attribute):
            parts.append(e.attr)
            e = e.value
        if not isinstance(e, ast.Name):
            return None
        base = e.id
        if base in module.imports:
            head = module.imports[base]
        elif f"{module.name}.{base}" in self.functions or f"{module.name}.{base}" in self.classes:
            head = f"{module.name}.{base}"
        else:
            return None
        full = ".".join([head] + parts[::-1])
        return self._canon(full)

    def _canon(self, full):
        """follow re-exports such as forsys.ForSys -> forsys.forsys.ForSys"""
        for _ in range(4):
            if full in self.functions or full in self.classes or full in self.modules:
                return full
            parts = full.split(".")
            changed = False
            for i in range(len(parts) - 1, 0, -1):
                modname = ".".join(parts[:i])
                if modname in self.modules and parts[i] in self.modules[modname].imports:
                    full = ".".join([self.modules[modname].imports[parts[i]]] + parts[i + 1:])
                    changed = True
                    break
            if not changed:
                break
        return full

    # ------------------------------------------------------------------ call resolution
    # the repo's own container convention (explicit table, one reason each)
    CONTAINER_CLASS = {
        "cells": "forsys.cell.Cell",            # dict id -> Cell everywhere in the package
        "edges": "forsys.edge.SmallEdge",       # dict id -> SmallEdge
        "vertices": "forsys.vertex.Vertex",     # dict id -> Vertex
        "big_edges": "forsys.edge.BigEdge",     # Frame.big_edges: dict id -> BigEdge
        "internal_big_edges": "forsys.edge.BigEdge",
        "frames": "forsys.frames.Frame",
        "time_series": "forsys.frames.Frame",
        "force_matrices": "forsys.fmatrix.ForceMatrix",
        "pressure_matrices": "forsys.pmatrix.PressureMatrix",
    }

    def resolve_call(self, call, func):
        """-> list of targets: Func objects, Cls objects (constructor), or 'ext:<dotted>' strings."""
        f = call.func
        m = func.module
        if isinstance(f, ast.Name):
            d = self.dotted(f, m)
            if d in self.functions:
                return [self.functions[d]]
            if d in self.classes:
                return [self.classes[d]]
            # nested function of the enclosing function
            p = func
            while p is not None:
                q = f"{p.qualname}.<locals>.{f.id}"
                if q in self.functions:
                    return [self.functions[q]]
                p = p.parent
            return [f"ext:{d or f.id}"]
        if isinstance(f, ast.Attribute):
            d = self.dotted(f, m)
            if d is not None:
                if d in self.functions:
                    return [self.functions[d]]
                if d in self.classes:
                    return [self.classes[d]]
                head = d.split(".")[0]
                if head != self.PKG:
                    return [f"ext:{d}"]
            recv = f.value
            # self.m() / super().m()
            if isinstance(recv, ast.Name) and recv.id == "self" and func.cls is not None:
                t = self.method(func.cls, f.attr)
                if t is not None:
                    return [t]
            if isinstance(recv, ast.Call) and isinstance(recv.func, ast.Name) and recv.func.id == "super" and func.cls is not None:
                for k in self.mro(func.cls)[1:]:
                    if f.attr in k.methods:
                        return [k.methods[f.attr]]
                return [f"ext:super.{f.attr}"]
            cands = self.methods_by_name.get(f.attr, [])
            if not cands:
                return [f"ext:.{f.attr}"]
            if len(cands) > 1:
                hint = self._receiver_class(recv)
                if hint:
                    narrowed = [c for c in cands if c.cls and any(k.qualname == hint for k in self.mro(c.cls)) or (c.cls and c.cls.qualname == hint)]
                    hc = self.classes.get(hint)
                    if hc is not None:
                        t = self.method(hc, f.attr)
                        if t is not None:
                            return [t]
                    if narrowed:
                        return narrowed
            return list(cands)
        return ["ext:<dynamic>"]

    def _receiver_class(self, recv):
        # x[...]: container convention on the subscripted name / attribute
        e = recv
        if isinstance(e, ast.Subscript):
            b = e.value
            name = b.attr if isinstance(b, ast.Attribute) else b.id if isinstance(b, ast.Name) else None
            return self.CONTAINER_CLASS.get(name)
        return None

    # ------------------------------------------------------------------ call graph
    def own_nodes(self, func):
        """AST nodes of `func` excluding nested function/class bodies."""
        out = []
        todo = list(ast.iter_child_nodes(func.node))
        while todo:
            n = todo.pop()
            if isinstance(n, (ast.FunctionDef, ast.AsyncFunctionDef, ast.ClassDef)):
                continue
            out.append(n)
            todo.extend(ast.iter_child_nodes(n))
        return out

    def calls_in(self, func):
        return [n for n in self.own_nodes(func) if isinstance(n, ast.Call)]

    def callgraph(self):
        if self._cg is None:
            cg = {}
            for q, f in self.functions.items():
                outs = set()
                for c in self.calls_in(f):
                    for t in self.resolve_call(c, f):
                        if isinstance(t, Func):
                            outs.add(t.qualname)
                        elif isinstance(t, Cls):
                            for hook in ("__init__", "__post_init__"):
                                mm = self.method(t, hook)
                                if mm is not None:
                                    outs.add(mm.qualname)
                # nested functions are (may be) called by their parent
                for q2, f2 in self.functions.items():
                    if f2.parent is f:
                        outs.add(q2)
                cg[q] = outs
            self._cg = cg
        return self._cg

    def reachable(self, roots):
        cg = self.callgraph()
        seen, todo = set(), list(roots)
        while todo:
            q = todo.pop()
            if q in seen or q not in cg:
                continue
            seen.add(q)
            todo.extend(cg[q])
        return seen

    def callers_of(self, qualname):
        cg = self.callgraph()
        return sorted(q for q, outs in cg.items() if qualname in outs)

    def call_sites(self, target_qualname):
        """(caller Func, Call node) for every call that may resolve to the target."""
        out = []
        for f in self.functions.values():
            for c in self.calls_in(f):
                for t in self.resolve_call(c, f):
                    if isinstance(t, Func) and t.qualname == target_qualname:
                        out.append((f, c))
                    elif isinstance(t, Cls):
                        for hook in ("__init__", "__post_init__"):
                            mm = self.method(t, hook)
                            if mm is not None and mm.qualname == target_qualname:
                                out.append((f, c))
        return out

    # ------------------------------------------------------------------ effects
    def stores(self, func):
        """Direct attribute / container effects of one function.
        -> list of dict(kind, attr, node, recv) with kind in
           rebind | elem | mut | del_elem ; attr = attribute name or bare container name (prefixed '$')."""
        out = []
        # local aliases of an attribute (`edges = self.ownEdges`, bound once, never re-bound): a mutation through the alias is a
        # mutation of the attribute
        bound = defaultdict(list)
        for n in self.own_nodes(func):
            if isinstance(n, ast.Name) and isinstance(n.ctx, (ast.Store, ast.Del)):
                bound[n.id].append(n)
        alias = {}
        for n in self.own_nodes(func):
            if isinstance(n, ast.Assign) and len(n.targets) == 1 and isinstance(n.targets[0], ast.Name) and len(bound[n.targets[0].id]) == 1:
                v = n.value
                while isinstance(v, ast.Subscript):
                    v = v.value
                if isinstance(v, ast.Attribute):
                    alias[n.targets[0].id] = v

        def resolve(b):
            return alias.get(b.id, b) if isinstance(b, ast.Name) else b

        def target_effect(t, node, kind_attr="rebind", kind_sub="elem"):
            if isinstance(t, (ast.Tuple, ast.List)):
                for e in t.elts:
                    target_effect(e, node, kind_attr, kind_sub)
            elif isinstance(t, ast.Starred):
                target_effect(t.value, node, kind_attr, kind_sub)
            elif isinstance(t, ast.Attribute):
                out.append(dict(kind=kind_attr, attr=t.attr, node=node, recv=t.value))
            elif isinstance(t, ast.Subscript):
                b = t.value
                # strip nested subscripts: a.b[i][j] = ... is an element store on a.b
                while isinstance(b, ast.Subscript):
                    b = b.value
                b = resolve(b)
                if isinstance(b, ast.Attribute):
                    out.append(dict(kind=kind_sub, attr=b.attr, node=node, recv=b.value, sub=t))
                elif isinstance(b, ast.Name):
                    out.append(dict(kind=kind_sub, attr="$" + b.id, node=node, recv=None, sub=t))

        for n in self.own_nodes(func):
            if isinstance(n, ast.Assign):
                for t in n.targets:
                    target_effect(t, n)
            elif isinstance(n, (ast.AugAssign, ast.AnnAssign)):
                if getattr(n, "value", None) is not None or isinstance(n, ast.AugAssign):
                    target_effect(n.target, n)
            elif isinstance(n, (ast.For, ast.AsyncFor)):
                target_effect(n.target, n)
            elif isinstance(n, ast.Delete):
                for t in n.targets:
                    target_effect(t, n, "del_attr", "del_elem")
            elif isinstance(n, ast.Call) and isinstance(n.func, ast.Attribute) and n.func.attr in MUTATORS:
                r = n.func.value
                while isinstance(r, ast.Subscript):
                    r = r.value
                r = resolve(r)
                if isinstance(r, ast.Attribute):
                    out.append(dict(kind="mut", attr=r.attr, node=n, recv=r.value, method=n.func.attr))
                elif isinstance(r, ast.Name):
                    out.append(dict(kind="mut", attr="$" + r.id, node=n, recv=None, method=n.func.attr))
        # an attribute (or a local container) handed to a package function that mutates that parameter is mutated here
        for n in self.own_nodes(func):
            if not isinstance(n, ast.Call):
                continue
            for t in self.resolve_call(n, func):
                if not isinstance(t, Func) or t is func:
                    continue
                mp = self.mutated_params(t)
                if not mp:
                    continue
                names = t.params
                if t.cls is not None and not t.is_static and isinstance(n.func, ast.Attribute):
                    names = names[1:]
                pairs = list(zip(names, n.args)) + [(k.arg, k.value) for k in n.keywords if k.arg]
                for pname, a in pairs:
                    if pname not in mp or isinstance(a, ast.Starred):
                        continue
                    r = a
                    while isinstance(r, ast.Subscript):
                        r = r.value
                    r = resolve(r)
                    if isinstance(r, ast.Attribute):
                        out.append(dict(kind="mut", attr=r.attr, node=n, recv=r.value, method=f"{mp[pname]} in {t.qualname}"))
                    elif isinstance(r, ast.Name):
                        out.append(dict(kind="mut", attr="$" + r.id, node=n, recv=None, method=f"{mp[pname]} in {t.qualname}"))
        return out

    def mutated_params(self, func):
        """{parameter name: mutating method} for the parameters a function mutates in place (directly or by handing them on); a
        parameter that the function re-binds is not followed"""
        memo = self.__dict__.setdefault("_mutated_params", {})
        if func.qualname in memo:
            return memo[func.qualname] or {}
        memo[func.qualname] = None          # in progress: a cycle contributes nothing new
        a = func.node.args
        params = {x.arg for x in a.posonlyargs + a.args + a.kwonlyargs} - {"self", "cls"}
        rebound = {n.id for n in self.own_nodes(func) if isinstance(n, ast.Name) and isinstance(n.ctx, (ast.Store, ast.Del))}
        out = {}
        for s in self.stores(func):
            if s["kind"] in ("mut", "elem", "del_elem") and s["attr"].startswith("$"):
                nm = s["attr"][1:]
                if nm in params and nm not in rebound:
                    out.setdefault(nm, s.get("method") or s["kind"])
        memo[func.qualname] = out
        return out

    def writers_of(self, attr, kinds=("rebind", "elem", "mut", "del_elem", "del_attr")):
        """[(Func, store)] over the whole package for one attribute name."""
        out = []
        for f in self.functions.values():
            for s in self.stores(f):
                if s["attr"] == attr and s["kind"] in kinds:
                    out.append((f, s))
        # class-level / module-level code
        return out

    def transitive_attr_effects(self, root_qualname, kinds=("rebind", "elem", "mut", "del_elem", "del_attr")):
        """{attr: [(Func, store)]} for everything reachable from root."""
        out = defaultdict(list)
        for q in sorted(self.reachable([root_qualname])):
            f = self.functions[q]
            for s in self.stores(f):
                if s["kind"] in kinds:
                    out[s["attr"]].append((f, s))
        return out


def unparse(node):
    try:
        return ast.unparse(node)
    except Exception:
        return "<?>"

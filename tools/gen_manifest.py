#!/usr/bin/env python3
"""Regenerate /verif/MANIFEST.json from the table below (one row per property)."""
import json, os, sys
HERE = os.path.dirname(os.path.dirname(os.path.abspath(__file__)))
sys.path.insert(0, HERE)

BASE_NOTE = ("Trusted base: CPython's ast module; the evaluator/normaliser in fsv/ (terms.py, sym.py); the hand-confirmed "
             "rule-instance tables of DESIGN.md appendix B. Decides the structural clauses only (necessary conditions); "
             "numerical clauses are declared undecided in DESIGN.md section 3.")

# id -> (technique, level text, design ref) for the properties whose check is built and armed
CLAIMS = {
    "C06": ("units-of-measure typing and affine (symbolic-translation) typing over evaluator normal forms; rounding-site classification over the call-graph closure; covariance kind of the orientation step",
            "Static necessary-condition analysis (a typing proof in the sense of Kennedy's units-of-measure parametricity for the typed quantities): every coefficient of the "
            "force-balance system is L^0 and translation invariant, velocities are L*T^-1 with space/time weight 0, the adimensional rhs is L^0*T^0, curvature L^-1, "
            "total turning L^0, pressure rhs stress*L^0; the only live rounding on the inference closure is the 3-decimal rounding of the dimensionless velocity term; "
            "the area sign is translation invariant as a cyclic sum. Rotation: only the orientation step is judged (known finding F6); solver conditioning is not decided.", "3/C06"),
    "C11": ("formula matching of the sampling expression on evaluator terms, who-may-write on cell cycles inside generate_mesh, formula identity of the contraction midpoint, guard of the border condition",
            "Static necessary-condition analysis: long interfaces become [E[int(len(E)/ne*i)] for i in range(ne)] + [E[-1]] (first index folds to 0, last point unconditional, ne+1 points), "
            "short interfaces are kept whole, cell cycles only shrink, the two-point border contraction target is exactly (v0+v1)/2 under the stated border condition and option. "
            "Idempotence and preserved adjacency depend on runtime topology and are not decided.", "3/C11"),
    "C12": ("guard domination on evaluator events, alignment of the candidate list with its distances, constants of the statement, inverse-composition shape",
            "Static necessary-condition analysis: every candidate considered is outside the targets already taken (the live values view of the mapping being filled), assignments are "
            "guarded by 'not yet mapped' with user pairings merged first, pools are interface end points of the respective frames, the nearest of the same candidate list is chosen, "
            "radius 0.5%..8% / cut-off 10% / box change 10%, backward steps invert the same step's map, incompatible frames store None. 'Maps to the true successor' is geometric and not decided.", "3/C12"),
    "C14": ("field-table (token, conversion, digits, default) matching on evaluator terms, writer/reader column agreement, ARITY rule on the syntax tree (evaluation order), sibling rule for signed references",
            "Static necessary-condition analysis of the parser: which token feeds which column with which conversion and rounding, defaults, length guard before optional tokens, "
            "tail vertex of each signed edge through abs(), orphan removal, section markers, interface reference = mean of its mesh edges. The continuation-line state machine is not decided.", "3/C14"),
    "C17": ("formula identity of window / position / statistic / normalisation on evaluator terms, KEY agreement of writer and reader",
            "Static necessary-condition analysis: (2*layers+1)^2 window, pixel position = vertex*rescale+offset with matching axes in both code paths, mean-of-medians and "
            "set-sum/polyline-length statistics (hence linear in the image), 'average' divides by the mean of the same dictionary, values keyed and written back by list position under every normalisation (None included), band positions are integer pixels.", "3/C17"),
    "C18": ("formula identity of the 2x2 tensor (same-value off-diagonal, one selection for all sums), guard of the zero branch, KEY injectivity and writer/reader agreement",
            "Static necessary-condition analysis: the stored tensor equals [[(-Sum pA+Txx)/Sum A, Txy/Sum A],[Txy/Sum A, (-Sum pA+Tyy)/Sum A]] over one selection, which yields symmetry, "
            "joint linearity and -p*I; zero tensor iff the selected area is 0 and never a value carried over from the previous grid cell; grid centres reported = centres used; composite key injective and shared by writer and reader; principal stresses reset on every call.", "3/C18"),
    "C19": ("DIV rule (unguarded division by a difference of single coordinates) over the call-graph closure, constants, sibling rules for the sign-encoded ids, shoelace identity",
            "Static necessary-condition analysis: no path reachable from create_lattice_elements divides by a rounded coordinate difference without a non-zero guard (axis-parallel "
            "ridges), corner points rounded to 3 decimals with x/y twins, a segment becomes an edge only between two different vertex numbers (corners that round to one point), every region is examined and the over-size filter removes exactly the bounded over-size ones, ids start at 1 and reversed use is encoded/decoded by sign consistently, orientation key from the shoelace sign. "
            "Agreement with scipy's Voronoi diagram is not decided.", "3/C19"),
    "C04": ("row-shape and formula identity on evaluator terms, unit typing of the turning estimate, small array-algebra normal form, alignment of the dropped-column list",
            "Static necessary-condition analysis: Young-Laplace rows have exactly the two +-1 entries in the columns of the interface's own cells with the "
            "orientation branches exact negations, rhs = tension x un-normalised total turning, curvature and trapezoid formulas are normal-form identities "
            "typed L^-1 and L^0 (scale free), the normal equations are bordered by the zero-sum constraint with one multiplier before the strip, dropped "
            "columns are re-inserted as zeros from the same list, the system is linear in the tensions. Sign vs. centre of curvature and the numerical accuracy "
            "of np.gradient are not decided.", "3/C04"),
    "C05": ("normal-form identity of the augmentation (array algebra), same-SSA-value alignment across back-ends per configuration, handler/guard wiring, typestate at the strip site",
            "Static necessary-condition analysis: both augmenters produce [[M,1],[1^T,0]] with rhs entry = number of interfaces, every back-end receives the same "
            "augmented matrix and the once-rounded rhs, negative exact solutions and singular matrices raise into the handler that falls back to NNLS, every lmfit "
            "parameter has min 0, lsq_linear is bounded below by 0, and the stripped entry is the multiplier for each selectable back-end (known finding: fix_stress). "
            "KKT optimality/uniqueness are solver behaviour and not decided.", "3/C05"),
    "C09": ("pairing (register/unregister) on evaluator events, who-may-write over the package, key/id agreement at construction sites, delete-discipline and mutation-under-iteration (destructor effects) rules",
            "Static necessary-condition analysis of the back-reference bookkeeping: constructor/destructor/replace_vertex pairing for SmallEdge and Cell, only Vertex helpers "
            "(and SmallEdge.replace_vertex) mutate back-reference lists, only three functions mutate cell cycles, every object is stored under its own id, each of the "
            "vertex-deletion sites deletes or re-points incident edges first and updates the cells, no loop iterates a live back-reference list while deleting from it, every re-pointing walks the whole owner list, and the skeleton parser creates an edge for every consecutive pair of a contour including (last, first). "
            "Object identity and topology of runtime meshes are not decided.", "3/C09"),
    "C02": ("placement/alignment and guard analysis on evaluator terms, formula identity of the tangent, covariance kind of the orientation step",
            "Static necessary-condition analysis of the assembled system: unknown/equation layout, row-pair offsets and index advance under one guard, "
            "keep-test on occupied columns, coefficient pair written in the column found for the same interface, tangent = J*(v-c) with the centre "
            "fitted over all points by the configured method, unit normalisation, orientation reference, two-point interfaces kept away from the "
            "circle fit. Per coefficient for every junction of every tissue; accuracy of the fitted centre is not decided. One known finding (F6).", "3/C02"),
    "C13": ("formula identity by algebraic value numbering with handler-path specialisation, row-placement alignment, guard domination, unit typing",
            "Static necessary-condition analysis: calculate_velocity equals (p1-p0)/(time[t1]-time[t0]) with the same neighbour frame for position and "
            "time, the missing-partner handler yields exactly zero, each junction's components land in its own two rows, every rhs store and every raise is dominated "
            "by the dynamic-mode condition, the adimensional divisor is the mean speed of exactly the written vectors and is what is reported. "
            "Correctness of the tracked partner is C12's geometric part and not decided.", "3/C13"),
    "C08": ("sibling-predicate canonicalisation (boolean normal forms with integer thresholds, membership normal form) + guard domination, over the ast",
            "Static necessary-condition analysis: the four hand-written copies of the internal/external predicate are reduced to canonical "
            "formulas over |cells(v)|>=2 / |cells(end)|>=3 and each must equal the statement's formula, so the copies cannot drift apart for any "
            "mesh; duplicate suppression in both directions is a guard-domination obligation on every growth site of the interface list (a de-duplication key must determine the whole vertex list); own_cells comes from the middle vertex in registration order; "
            "junction-degree thresholds and the tension-table filter are compared too. Does not decide correctness of the path-splitting algorithm.", "3/C08"),
    "C10": ("effect analysis over the call graph (who-may-write, typestate of build state), KIND of per-frame stores, index-chain alignment on evaluator terms",
            "Static necessary-condition analysis: who-may-write tables for tension/pressure/result stores, the transitive write set of "
            "ForceMatrix.solve and GeneralMatrix.solve_system contains no build state, per-frame stores are only element-stored under the frame "
            "key, the solution position -> interface -> mesh edges -> reported dictionary chain uses one index, and internal interfaces are reset "
            "before write-back. These bound every call history, which no finite test sequence can; float equality across histories is not decided.", "3/C10"),
    "C16": ("sibling-predicate agreement, formula/guard matching on evaluator terms, NONE rule (mutator result bound), RANGE of defaults against arccos",
            "Static necessary-condition analysis: the three copies of the exclusion predicate equal 'both end junctions flagged', the flag is "
            "max over all pairs of arccos(dot) >= limit with tangents from the configured fit, the -1 re-insertion keeps output index and input "
            "pointer aligned (numpy.insert with positions of the full list is recognised as misaligned), interfaces are not removed from the list being walked, the arccos argument is clipped, no None-returning mutator result is bound on the solve path, and every default limit is unattainable.", "3/C16"),
    "C20": ("formula identity by algebraic value numbering (cyclic-sum normal form) + homogeneity-degree typing + finite-set normal form, over the ast",
            "Static necessary-condition analysis: Cell.get_area is proved identical to the shoelace formula as a cyclic-sum normal form "
            "(sign convention, reversal, shift, translation and degree-2 scaling are algebraic corollaries), perimeter summand, "
            "next/previous antisymmetry, sign definition and neighbour set are compared with statement-side formulas. "
            "Holds for every polygon because no value is sampled; does not decide 'areas add up to the outline'.", "3/C20"),
}

NA_FIXED = {
    "C01": "end-to-end numerical recovery on equilibrium geometries (circle-fit accuracy, null space of a runtime matrix, solver convergence): no clause is visible in the shape of the code; its structural prerequisites are decided under C02, C05, C10, C13",
    "C03": "numerical recovery of tensions from generated velocity fields: runtime solver behaviour; its structural prerequisites (rhs placement/sign/time step, tracking guards, normalisation row) are decided under C13, C12, C05",
    "C07": "relabelling/storage-order invariance depends on runtime singleton-ness of set intersections and first-match searches; any id-opacity lint would fire on behaviour-preserving code, so no sound static necessary condition is in reach",
    "C15": "image topology is produced by cv2.findContours and a pixel-pattern case analysis on runtime arrays; nothing but the bookkeeping already covered by C09 is visible statically",
}
PENDING_REASON = "static check for this property is designed (DESIGN.md section 3) but not yet built/armed in this revision; not claimed until it is"

ALL = [f"C{i:02d}" for i in range(1, 21)]


def main():
    checks = []
    for pid in ALL:
        if pid not in CLAIMS:
            continue
        tech, text, ref = CLAIMS[pid]
        checks.append(dict(
            property_id=pid,
            quick_cmd=f"./check {pid} --tier quick",
            thorough_cmd=f"./check {pid} --tier thorough",
            evidence_file=f"evidence/{pid}.json",
            replay_cmd_template=f"./check {pid} --replay {{path}}",
            engine="fsv",
            level_claimed=dict(category="other", text=text, design_ref=f"DESIGN.md section {ref}"),
            level_note=BASE_NOTE,
            technique=tech,
        ))
    na = []
    for pid in ALL:
        if pid in CLAIMS:
            continue
        na.append(dict(property_id=pid, reason=NA_FIXED.get(pid, PENDING_REASON)))
    man = dict(
        version=1,
        setup_cmd="python3 -c \"import ast, json, fractions; print('fsv needs only the standard library')\"",
        hooks=dict(guard="FORSYS_VERIF", enable="none needed: the checks parse /repo's sources and never import or run forsys",
                   baseline_off_cmd="cd /repo && /venv/bin/python -m pytest -ra -q -p no:cacheprovider --timeout=900 --continue-on-collection-errors",
                   source_commits=[], add_only=True),
        engines=[dict(name="fsv", path="fsv/", serves_properties=sorted(CLAIMS),
                      kind_free_text="repository-specific static analyser over Python's ast: program model + call graph + effects (model.py), "
                                     "syntax-directed abstract evaluation into canonical terms with guard stacks (sym.py, terms.py), "
                                     "rule library (rules.py, cyclic.py), one obligation list per property (props/)")],
        checks=checks,
        notes="Static analysis only: every verdict is computed from /repo/forsys/*.py as it is on disk when the check runs. "
              "exit 0 ok / exit 1 VIOLATION / exit 2 ANALYSIS-ERROR (vanished anchor or undecidable shape; never a silent pass). "
              "Genuine defects found and repaired are listed in known_findings.json (status fixed) with their 'fix:' commits.",
        not_applicable=na,
    )
    with open(os.path.join(HERE, "MANIFEST.json"), "w") as f:
        json.dump(man, f, indent=1)
    print("claimed", sorted(CLAIMS), "n/a", [x["property_id"] for x in na])


if __name__ == "__main__":
    main()

#!/usr/bin/env python3
"""freeze the statement multiset of every function of /repo's current tree into fsv/baseline_stmts.json (see core.restructured)"""
import json, os, sys
V = os.path.dirname(os.path.dirname(os.path.abspath(__file__)))
sys.path.insert(0, V)
from fsv import model, core
r = model.Repo.load()
out = {q: dict(core.statement_bag(r, f)) for q, f in sorted(r.functions.items())}
json.dump({"_comment": "multiset of statement hashes of every function when the obligations were bound (simple statements whole, compound ones by header). "
                       "A failed match in a function that differs from this record by more than core.EDIT_LIMIT statements is reported as 'cannot decide' "
                       "(exit 2), not as a violation.  Regenerate with tools/gen_fingerprints.py after re-binding anchors.",
           "functions": out}, open(os.path.join(V, "fsv", "baseline_stmts.json"), "w"), indent=0)
print(len(out), "functions")

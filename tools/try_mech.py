#!/usr/bin/env python3
"""usage: tools/try_mech.py <PROP> <relpath> <substring of rewrite title> [--show]  - run one mechanical rewrite of one module against one check"""
import ast, os, sys
V = os.path.dirname(os.path.dirname(os.path.abspath(__file__)))
sys.path.insert(0, V)
from fsv import model, refactor, selftest, core
prop, rel, key = sys.argv[1:4]
repo = model.Repo.load()
m = [x for x in repo.modules.values() if x.relpath == rel][0]
for title, fn in refactor.MECHANICAL:
    if key in title:
        src = ast.unparse(fn(m.tree))
        if "--show" in sys.argv:
            print(src)
        v = repo.variant(rel, src.encode())
        from fsv import sym
        sym._cache.clear()
        code, ctx, msgs = core.run_property(prop, "quick", repo=v)
        print(title, "->", code, [m_[:300] for m_ in msgs])
        if ctx is None:
            continue
        viol, kn = core.classify(ctx)
        for r in viol:
            print("  VIOL", r.rule, r.key, "::", (r.detail if hasattr(r, "detail") else "")[:400])

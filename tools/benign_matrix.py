#!/usr/bin/env python3
"""Run every check against every behaviour-preserving change on record (benign/<id>/patch.diff; scratch export of
/repo HEAD + patch).  A check that exits 1 on one of these is a FALSE ALARM; exit 2 is 'undecided' (analysis refuses).
usage: tools/benign_matrix.py [ids...] [--write-md FILE] [-v]"""
import json, os, subprocess, sys, tempfile, shutil
from concurrent.futures import ThreadPoolExecutor

VERIF = os.path.dirname(os.path.dirname(os.path.abspath(__file__)))
PROPS = ["C02", "C04", "C05", "C06", "C08", "C09", "C10", "C11", "C12", "C13", "C14", "C16", "C17", "C18", "C19", "C20"]
HEAD = subprocess.check_output(["git", "-C", "/repo", "rev-parse", "--short", "HEAD"]).decode().strip()


def run(cmd, **kw):
    return subprocess.run(cmd, stdout=subprocess.PIPE, stderr=subprocess.STDOUT, text=True, **kw)


def one(bid):
    d = os.path.join(VERIF, "benign", bid)
    patch = os.path.join(d, "patch.diff")
    tmp = tempfile.mkdtemp(prefix="fsv_bn.")
    try:
        subprocess.run(f"git -C /repo archive HEAD forsys | tar -x -C {tmp}", shell=True, check=True)
        run(["git", "init", "-q", "."], cwd=tmp)
        r = run(["git", "apply", "--whitespace=nowarn", patch], cwd=tmp)
        if r.returncode != 0:
            return bid, None, [], ["PATCH DOES NOT APPLY " + r.stdout[-200:]]
        fired, undecided, lines = [], [], []
        for p in PROPS:
            o = run([os.path.join(VERIF, "check"), p, "--no-evidence"], env=dict(os.environ, FSV_REPO=tmp))
            if o.returncode == 1:
                fired.append(p)
                lines += [p + ": " + l.strip()[:300] for l in o.stdout.splitlines() if l.startswith("  forsys")]
            elif o.returncode == 2:
                undecided.append(p)
                lines += [p + ": " + l.strip()[:300] for l in o.stdout.splitlines() if "ANALYSIS" in l][:1]
        return bid, fired, undecided, lines
    finally:
        shutil.rmtree(tmp, ignore_errors=True)


def main():
    args = [a for a in sys.argv[1:] if not a.startswith("-")]
    md = None
    if "--write-md" in sys.argv:
        md = sys.argv[sys.argv.index("--write-md") + 1]
        args.remove(md)
    ids = sorted(os.listdir(os.path.join(VERIF, "benign")))
    ids = [s for s in ids if os.path.isfile(os.path.join(VERIF, "benign", s, "patch.diff")) and (not args or s in args)]
    with ThreadPoolExecutor(12) as ex:
        res = list(ex.map(one, ids))
    n_fa = n_un = 0
    rows = []
    for bid, fired, undecided, lines in res:
        mp = os.path.join(VERIF, "benign", bid, "meta.json")
        m = json.load(open(mp)) if os.path.exists(mp) else {}
        title = (m.get("title") or "").replace("|", "/")
        status = "n/a" if fired is None else ("FALSE-ALARM " + "/".join(fired) if fired else ("undecided " + "/".join(undecided) if undecided else "silent"))
        if fired:
            n_fa += 1
        elif undecided:
            n_un += 1
        print(f"{bid:4s} {status:28s} {title[:100]}")
        if "-v" in sys.argv or fired:
            for l in lines:
                print("       " + l)
        rows.append((bid, status, title[:150]))
        if m:
            m["false_alarm"] = fired or []
            m["undecided"] = undecided
            m["checked_against_repo_head"] = HEAD
            json.dump(m, open(mp, "w"), indent=1)
    print(f"{len(res)} behaviour-preserving changes: {n_fa} false alarms, {n_un} undecided, {len(res) - n_fa - n_un} silent")
    if md:
        with open(md, "w") as f:
            f.write("| change | checks | refactoring |\n|---|---|---|\n")
            for r in rows:
                f.write(f"| {r[0]} | {r[1]} | {r[2]} |\n")
            f.write(f"\n{len(res)} behaviour-preserving changes: {n_fa} false alarms, {n_un} undecided (repo HEAD {HEAD}).\n")
    return 1 if n_fa else 0


if __name__ == "__main__":
    sys.exit(main())

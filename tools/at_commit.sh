#!/bin/bash
# usage: tools/at_commit.sh <commit> <prop>...  - run checks against /repo's tree at <commit> (scratch export, removed afterwards)
c=$1; shift
d=$(mktemp -d /tmp/fsv_at.XXXXXX)
git -C /repo archive "$c" forsys | tar -x -C "$d"
for p in "$@"; do FSV_REPO=$d /verif/check "$p" --no-evidence; echo "exit=$?"; done
rm -rf "$d"

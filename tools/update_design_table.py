#!/usr/bin/env python3
"""regenerate the catch table of DESIGN.md section 8 from tools/seed_matrix.py (runs every check on every seeded change)"""
import os, subprocess, tempfile
V = os.path.dirname(os.path.dirname(os.path.abspath(__file__)))
tmp = tempfile.mktemp(suffix=".md")
subprocess.run(["python3", os.path.join(V, "tools", "seed_matrix.py"), "--write-md", tmp], check=True, stdout=subprocess.DEVNULL)
p = os.path.join(V, "DESIGN.md")
s = open(p).read()
a = s.index("| seed | caught by | change |")
b = s.index("seeded changes are reported by at least one check (repo HEAD")
b = s.index("\n", b) + 1
s = s[:a] + open(tmp).read() + s[b:]
open(p, "w").write(s)
os.remove(tmp)
print(s[s.rindex("\n", 0, b - 2 if b < len(s) else len(s) - 1):][:0] or "table regenerated")

#!/bin/bash
# usage: tools/try_seed.sh <patch.diff> [props...]  - run the checks against a scratch export of /repo HEAD with the patch applied
patch=$1; shift
props=${@:-C02 C04 C05 C06 C08 C09 C10 C11 C12 C13 C14 C16 C17 C18 C19 C20}
d=$(mktemp -d /tmp/fsv_seed.XXXXXX)
git -C /repo archive HEAD forsys | tar -x -C "$d"
( cd "$d" && git init -q . 2>/dev/null && git apply --whitespace=nowarn "$patch" ) || { echo "PATCH DOES NOT APPLY"; rm -rf "$d"; exit 3; }
fired=""
for p in $props; do
  out=$(FSV_REPO=$d /verif/check "$p" --no-evidence 2>&1); code=$?
  if [ $code -eq 1 ]; then fired="$fired $p"; echo "$out" | grep -E "^\s+forsys" | cut -c1-330; fi
  if [ $code -eq 2 ]; then echo "$p: $(echo "$out" | grep ANALYSIS | head -1 | cut -c1-300)"; fi
done
echo "FIRED:${fired:- none}"
rm -rf "$d"

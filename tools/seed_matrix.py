#!/usr/bin/env python3
"""Re-run every check against every seeded change (scratch export of /repo HEAD + patch), refresh meta.json's
`detected_by`, rebase a patch whose context moved (patch -F3) and print the catch table.
usage: tools/seed_matrix.py [--write-md FILE]"""
import json, os, subprocess, sys, tempfile, shutil
from concurrent.futures import ThreadPoolExecutor

VERIF = os.path.dirname(os.path.dirname(os.path.abspath(__file__)))
PROPS = ["C02", "C04", "C05", "C06", "C08", "C09", "C10", "C11", "C12", "C13", "C14", "C16", "C17", "C18", "C19", "C20"]
HEAD = subprocess.check_output(["git", "-C", "/repo", "rev-parse", "--short", "HEAD"]).decode().strip()


def run(cmd, **kw):
    return subprocess.run(cmd, stdout=subprocess.PIPE, stderr=subprocess.STDOUT, text=True, **kw)


def one(seed):
    d = os.path.join(VERIF, "seeded", seed)
    patch = os.path.join(d, "patch.diff")
    tmp = tempfile.mkdtemp(prefix="fsv_mx.")
    try:
        subprocess.run(f"git -C /repo archive HEAD forsys | tar -x -C {tmp}", shell=True, check=True)
        run(["git", "init", "-q", "."], cwd=tmp)
        r = run(["git", "apply", "--whitespace=nowarn", patch], cwd=tmp)
        rebased = False
        if r.returncode != 0:
            run(["git", "add", "-A"], cwd=tmp)
            run(["git", "-c", "user.name=x", "-c", "user.email=x@x", "commit", "-q", "-m", "base"], cwd=tmp)
            r2 = run(["patch", "-p1", "--binary", "-F3", "-i", patch], cwd=tmp)
            if r2.returncode != 0:
                return seed, None, "PATCH DOES NOT APPLY: " + r2.stdout[-200:]
            new = subprocess.run(["git", "diff", "--", "forsys"], cwd=tmp, stdout=subprocess.PIPE).stdout
            for f in os.listdir(os.path.join(tmp, "forsys")):
                if f.endswith(".orig") or f.endswith(".rej"):
                    os.remove(os.path.join(tmp, "forsys", f))
            open(patch, "wb").write(new)
            rebased = True
        fired, undecided, lines = [], [], []
        for p in PROPS:
            env = dict(os.environ, FSV_REPO=tmp)
            o = run([os.path.join(VERIF, "check"), p, "--no-evidence"], env=env)
            if o.returncode == 1:
                fired.append(p)
                lines += [l.strip()[:260] for l in o.stdout.splitlines() if l.startswith("  forsys")]
            elif o.returncode == 2:
                undecided.append(p)
        meta_p = os.path.join(d, "meta.json")
        m = json.load(open(meta_p))
        m["detected_by"] = fired
        m["undecided"] = undecided
        m["reports"] = lines[:6]
        m["checked_against_repo_head"] = HEAD
        if rebased:
            m["rebased"] = f"context moved by a later fix: commit; patch regenerated against {HEAD} with `patch -F3`"
        json.dump(m, open(meta_p, "w"), indent=1)
        return seed, fired, "; undecided " + ",".join(undecided) if undecided else ""
    finally:
        shutil.rmtree(tmp, ignore_errors=True)


def main():
    seeds = sorted(os.listdir(os.path.join(VERIF, "seeded")))
    seeds = [s for s in seeds if os.path.isfile(os.path.join(VERIF, "seeded", s, "patch.diff"))]
    with ThreadPoolExecutor(8) as ex:
        res = list(ex.map(one, seeds))
    rows = []
    n_det = 0
    for seed, fired, note in res:
        m = json.load(open(os.path.join(VERIF, "seeded", seed, "meta.json")))
        title = (m.get("title") or "").replace("|", "/")
        if fired:
            n_det += 1
        rows.append((seed, ", ".join(fired) if fired else ("**missed**" if fired is not None else "n/a"), title[:150], note))
        print(f"{seed:7s} {'/'.join(fired) if fired else ('MISSED' if fired is not None else 'ERR')!s:12s} {title[:110]} {note}")
    print(f"detected {n_det} of {len(res)}")
    if "--write-md" in sys.argv:
        out = sys.argv[sys.argv.index("--write-md") + 1]
        with open(out, "w") as f:
            f.write("| seed | caught by | change |\n|---|---|---|\n")
            for seed, fired, title, note in rows:
                f.write(f"| {seed} | {fired} | {title} |\n")
            f.write(f"\n{n_det} of {len(res)} seeded changes are reported by at least one check (repo HEAD {HEAD}).\n")


if __name__ == "__main__":
    main()

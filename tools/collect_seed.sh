#!/bin/bash
# usage: tools/collect_seed.sh <PID> <k> [subdir=_seed] [idtag]   - confirm a sub-agent's seeded change in a FRESH scratch worktree and file it under /verif/seeded/
# confirms: patch applies, suite still passes (41), demo fails with the change and passes without; then runs the checks on it.
set -u
pid=$1; k=$2; sub=${3:-_seed}; tag=${4:-}
src=/tmp/wt_$pid/$sub/$k
[ -f $src/patch.diff ] || { echo "no patch at $src"; exit 3; }
id=${pid}-${tag}$k
wt=/tmp/confirm_$id
git -C /repo worktree add --detach $wt HEAD >/dev/null 2>&1 || { echo "cannot create worktree"; exit 3; }
cleanup() { git -C /repo worktree remove --force $wt >/dev/null 2>&1; }
trap cleanup EXIT
cp $src/demo.py $wt/_demo.py
# demos written by the agents use their own worktree path; point them at this one
sed -i "s#/tmp/wt_$pid#$wt#g" $wt/_demo.py
( cd $wt && PYTHONPATH=$wt timeout 600 /venv/bin/python _demo.py >/tmp/confirm_$id.clean.log 2>&1 ); clean=$?
sed "s#/tmp/wt_$pid#$wt#g" $src/patch.diff > /tmp/confirm_$id.patch
( cd $wt && git apply --whitespace=nowarn /tmp/confirm_$id.patch ) || { echo "$id: PATCH DOES NOT APPLY"; exit 3; }
( cd $wt && PYTHONPATH=$wt timeout 600 /venv/bin/python _demo.py >/tmp/confirm_$id.mut.log 2>&1 ); mut=$?
suite=$(cd $wt && PYTHONPATH=$wt /venv/bin/python -m pytest -q -p no:cacheprovider -n 8 --timeout=900 --basetemp=$wt/.pt 2>&1 | tail -1)
fired=$(/verif/tools/try_seed.sh $src/patch.diff 2>&1)
echo "$id: demo clean=$clean mutated=$mut suite='$suite'"
echo "$fired" | tail -n 20 | cut -c1-300
ok=0
if [ $clean -eq 0 ] && [ $mut -ne 0 ] && echo "$suite" | grep -q "41 passed"; then ok=1; fi
if [ $ok -eq 1 ]; then
  mkdir -p /verif/seeded/$id
  cp $src/patch.diff /verif/seeded/$id/patch.diff
  cp $src/demo.py /verif/seeded/$id/demo.py
  python3 - "$src/meta.json" "/verif/seeded/$id/meta.json" "$id" "$suite" "$(echo "$fired" | grep '^FIRED' )" <<'PY'
import json, sys
src, dst, sid, suite, fired = sys.argv[1:6]
try:
    m = json.load(open(src))
except Exception:
    m = {}
m["seed_id"] = sid
m["confirmed_by"] = {"scratch_worktree": "fresh `git worktree add --detach` of /repo HEAD, removed afterwards",
                      "suite": suite, "demo_on_clean_tree": "exit 0", "demo_with_change": "non-zero exit"}
m["checks_run"] = "tools/try_seed.sh patch.diff (all sixteen checks against a scratch export of /repo HEAD with the patch applied)"
m["detected_by"] = fired.replace("FIRED:", "").split()
json.dump(m, open(dst, "w"), indent=1)
PY
  echo "$id: CONFIRMED -> /verif/seeded/$id"
else
  echo "$id: NOT CONFIRMED"
fi
rm -f /tmp/confirm_$id.patch /tmp/confirm_$id.*.log

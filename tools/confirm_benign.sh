#!/bin/bash
# usage: tools/confirm_benign.sh <id> [--suite]  - confirm that benign/<id>/patch.diff is behaviour preserving as far as its own
# equivalence script can tell: same digest on a scratch worktree of /repo HEAD before and after the patch (and, with --suite,
# the pinned test suite still passes).  The worktree is removed afterwards.
id=$1; d=/verif/benign/$id; wt=/tmp/cb_$id
git -C /repo worktree add -q --detach "$wt" HEAD || exit 3
trap 'git -C /repo worktree remove --force "$wt" >/dev/null 2>&1; git -C /repo worktree prune' EXIT
cd "$wt"
PYTHONPATH=$wt timeout 1500 /venv/bin/python "$d/equiv.py" > /tmp/cb_$id.clean.txt 2>/tmp/cb_$id.err1; c1=$?
git apply --whitespace=nowarn "$d/patch.diff" || { echo "$id PATCH-DOES-NOT-APPLY"; exit 3; }
PYTHONPATH=$wt timeout 1500 /venv/bin/python "$d/equiv.py" > /tmp/cb_$id.changed.txt 2>/tmp/cb_$id.err2; c2=$?
n=$(wc -l < /tmp/cb_$id.clean.txt)
if [ $c1 -ne 0 ] || [ $c2 -ne 0 ]; then res="equiv-script-failed($c1,$c2)"; elif cmp -s /tmp/cb_$id.clean.txt /tmp/cb_$id.changed.txt; then res="identical($n lines)"; else res="DIFFERENT"; fi
suite="-"
if [ "$2" = "--suite" ]; then
  suite=$(PYTHONPATH=$wt /venv/bin/python -m pytest -q -p no:cacheprovider -n 6 --basetemp=$wt/.pt 2>&1 | tail -1)
fi
echo "$id equiv=$res suite=$suite"
rm -f /tmp/cb_$id.clean.txt /tmp/cb_$id.changed.txt /tmp/cb_$id.err1 /tmp/cb_$id.err2

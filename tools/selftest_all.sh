#!/bin/bash
# run every property's self-validation (each one spreads its variants over the cores itself); print a summary line per property and any failure
cd /verif
props=${@:-C02 C04 C05 C06 C08 C09 C10 C11 C12 C13 C14 C16 C17 C18 C19 C20}
for p in $props; do
  [ -f fsv/props/$p.py ] || continue
  out=$(python3 -m fsv.selftest $p 2>&1); code=$?
  k=$(echo "$out" | grep -c "^breaking *violation"); n=$(echo "$out" | grep -c "^breaking")
  q=$(echo "$out" | grep "^preserving" | grep -c "clean \|undecided "); m=$(echo "$out" | grep -c "^preserving")
  s=$(echo "$out" | grep "^seeded" | grep -c "violation "); t=$(echo "$out" | grep -c "^seeded")
  echo "$p exit=$code killed=$k/$n preserved=$q/$m seeded=$s/$t"
  echo "$out" | grep "^ANALYSIS-ERROR" | cut -c1-300 | head -5
done

#!/bin/bash
# run every property's self-validation in parallel; print only problems
cd /verif
props=${@:-C02 C04 C05 C06 C08 C09 C10 C11 C12 C13 C14 C16 C17 C18 C19 C20}
for p in $props; do
  [ -f fsv/props/$p.py ] || continue
  ( out=$(python3 -m fsv.selftest $p 2>&1); code=$?; k=$(echo "$out" | grep -c "^breaking *violation"); n=$(echo "$out" | grep -c "^breaking"); q=$(echo "$out" | grep -c "^preserving *clean"); m=$(echo "$out" | grep -c "^preserving"); echo "$p exit=$code killed=$k/$n preserved=$q/$m"; echo "$out" | grep -v "violation \|clean " | cut -c1-300 | head -5 ) &
done
wait

#!/usr/bin/env python3
"""freeze the list of function names of /repo's current tree into fsv/known_functions.json (see sym.auto_inline)"""
import json, os, sys
V = os.path.dirname(os.path.dirname(os.path.abspath(__file__)))
sys.path.insert(0, V)
from fsv import model
r = model.Repo.load()
p = os.path.join(V, "fsv", "known_functions.json")
d = json.load(open(p)) if os.path.exists(p) else {}
d["functions"] = sorted(r.functions)
json.dump(d, open(p, "w"), indent=0)
print(len(d["functions"]), "functions")

#!/usr/bin/env python3
"""freeze the list of function names of /repo's current tree into fsv/known_functions.json (see sym.auto_inline)"""
import json, os, sys
V = os.path.dirname(os.path.dirname(os.path.abspath(__file__)))
sys.path.insert(0, V)
from fsv import model
r = model.Repo.load()
p = os.path.join(V, "fsv", "known_functions.json")
d = json.load(open(p)) if os.path.exists(p) else {}
d["functions"] = sorted(r.functions)
# parameter names at binding time: an optional parameter added later with a constant default that no call site in the package passes is
# evaluated at its default (sym.new_param_bindings)
d["params"] = {q: [x.arg for x in f.node.args.posonlyargs + f.node.args.args + f.node.args.kwonlyargs] for q, f in sorted(r.functions.items())}
json.dump(d, open(p, "w"), indent=0)
print(len(d["functions"]), "functions")
